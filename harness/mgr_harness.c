/*
 * Implementation-side executor of the group-manager line protocol (C15).
 *
 * What runs is the real rtr_mgr.c, the real rtr_init / rtr_start / rtr_stop / rtr_fsm_start of
 * rtr.c and the real rtr_change_socket_state -> rtr_mgr_cb path of packets.c, all compiled from
 * the repository's working tree.  Nothing of the library is replaced:
 *
 *  - every socket gets a mock `struct tr_socket` whose open() never connects: it records that the
 *    socket's FSM thread has arrived there ("parked") and then sleeps until the socket state is
 *    RTR_SHUTDOWN (which is what rtr_stop() sets before it cancels and joins the thread), then
 *    reports TR_ERROR so that the real FSM loop terminates through its RTR_SHUTDOWN branch.
 *  - rtr_start / rtr_stop are observed with -Wl,--wrap (the wrappers log the call and then call
 *    the real function; __wrap_rtr_start additionally waits until the new thread is parked, so
 *    that the run is deterministic).  lrtr_dbg is wrapped to keep stderr quiet.
 *  - socket state changes are injected by calling rtr_change_socket_state() on the real sockets
 *    from the main thread while their FSM threads are parked.
 *
 * Protocol (one reply line per request line):
 *   init <pref>:<nsocks> ...        rtr_mgr_init      -> "rc=<rc>" [+ observation]
 *   ev <pref> <idx> <state> <0|1>   last_update := (flag ? now : 0); rtr_change_socket_state
 *   add <pref> <nsocks>             rtr_mgr_add_group
 *   addf <pref> <nsocks> <k>        rtr_mgr_add_group while the k-th lrtr_malloc of the call returns NULL
 *                                   (allocator installed with lrtr_set_alloc_functions for this call only)
 *   setiv <pref> <refresh> <expire> <retry>
 *                                   what an End of Data PDU does to sockets[0] of the group when that socket
 *                                   is in RTR_INTERVAL_MODE_ACCEPT_ANY: the three interval fields are set to
 *                                   the announced values as they are (rtr_mgr_add_group copies them)
 *   remove <pref>                   rtr_mgr_remove_group
 *   start | stop                    rtr_mgr_start | rtr_mgr_stop
 *   free                            rtr_mgr_stop + rtr_mgr_free
 * observation = "log=<status callbacks and start/stop calls of this op> first=<pref>
 *                groups=<pref>:<STATUS>:<state.synced.thread>,...|..."
 */
#define _GNU_SOURCE
#include "rtrlib/lib/alloc_utils.h"
#include "rtrlib/lib/utils_private.h"
#include "rtrlib/rtr/packets_private.h"
#include "rtrlib/rtr/rtr_private.h"
#include "rtrlib/rtr_mgr_private.h"
#include "rtrlib/transport/transport_private.h"

#include <ctype.h>
#include <pthread.h>
#include <stdarg.h>
#include <stdbool.h>
#include <stdio.h>
#include <stdlib.h>
#include <string.h>
#include <unistd.h>

#define MAXGROUPS 8
#define MAXSOCKS 4

struct hsock {
	struct rtr_socket rtr; /* must stay first: the library hands us &rtr */
	struct tr_socket tr;
	int pref;
	int idx;
	int parks; /* number of times the FSM thread of this socket reached tr_open */
};

static struct rtr_mgr_config *conf;

/* ---------------------------------------------------------------- per-op event log */
static char *evlog;
static size_t evlen, evcap;

static void ev_append(const char *fmt, ...)
{
	char b[96];
	va_list ap;
	size_t n;

	va_start(ap, fmt);
	vsnprintf(b, sizeof(b), fmt, ap);
	va_end(ap);
	n = strlen(b);
	if (evlen + n + 2 > evcap) {
		evcap = (evlen + n + 2) * 2;
		evlog = realloc(evlog, evcap);
	}
	if (evlen)
		evlog[evlen++] = ';';
	memcpy(evlog + evlen, b, n + 1);
	evlen += n;
}

static void ev_reset(void)
{
	evlen = 0;
	if (evlog)
		evlog[0] = 0;
}

static const char *status_name(int st)
{
	switch (st) {
	case RTR_MGR_CLOSED:
		return "CLOSED";
	case RTR_MGR_CONNECTING:
		return "CONNECTING";
	case RTR_MGR_ESTABLISHED:
		return "ESTABLISHED";
	case RTR_MGR_ERROR:
		return "ERROR";
	}
	return "?";
}

/* ---------------------------------------------------------------- mock transport */
static int mock_open(void *p)
{
	struct hsock *h = p;

	__atomic_add_fetch(&h->parks, 1, __ATOMIC_SEQ_CST);
	/* never connects; leaves when the socket is being shut down */
	while (*(volatile enum rtr_socket_state *)&h->rtr.state != RTR_SHUTDOWN)
		usleep(20);
	return TR_ERROR;
}

static void mock_close(void *p)
{
	(void)p;
}

static void mock_free(struct tr_socket *t)
{
	(void)t;
}

static int mock_send(const void *p, const void *pdu, const size_t len, const time_t timeout)
{
	(void)p;
	(void)pdu;
	(void)len;
	(void)timeout;
	return TR_ERROR;
}

static int mock_recv(const void *p, void *pdu, const size_t len, const time_t timeout)
{
	(void)p;
	(void)pdu;
	(void)len;
	(void)timeout;
	return TR_ERROR;
}

static const char *mock_ident(void *p)
{
	(void)p;
	return "mock";
}

/* ---------------------------------------------------------------- observation of rtr_start / rtr_stop / lrtr_dbg */
int __real_rtr_start(struct rtr_socket *s);
void __real_rtr_stop(struct rtr_socket *s);

int __wrap_rtr_start(struct rtr_socket *s)
{
	struct hsock *h = (struct hsock *)s;
	enum rtr_socket_state st0 = s->state;
	int before = __atomic_load_n(&h->parks, __ATOMIC_SEQ_CST);
	int rc = __real_rtr_start(s);

	ev_append("start%d.%d:%s", h->pref, h->idx, rc == 0 ? "ok" : "fail");
	/* the new thread sets state = RTR_CONNECTING and enters tr_open (or returns at once when the
	 * socket is RTR_SHUTDOWN); wait for it so that what follows is deterministic
	 */
	if (rc == 0 && st0 != RTR_SHUTDOWN)
		while (__atomic_load_n(&h->parks, __ATOMIC_SEQ_CST) == before)
			usleep(20);
	return rc;
}

void __wrap_rtr_stop(struct rtr_socket *s)
{
	struct hsock *h = (struct hsock *)s;

	ev_append("stop%d.%d", h->pref, h->idx);
	__real_rtr_stop(s);
}

void __wrap_lrtr_dbg(const char *fmt, ...)
{
	(void)fmt;
}

static void status_cb(const struct rtr_mgr_group *g, enum rtr_mgr_status st, const struct rtr_socket *sock, void *data)
{
	const struct hsock *h = (const struct hsock *)sock;

	(void)data;
	if (sock)
		ev_append("S%u:%s@%d.%d", g->preference, status_name(st), h->pref, h->idx);
	else
		ev_append("S%u:%s@-", g->preference, status_name(st));
	if (g->status != st)
		ev_append("STATUS-FIELD-MISMATCH");
}

/* ---------------------------------------------------------------- allocator that refuses the k-th request */
static unsigned long alloc_seen, alloc_fail_at;

static void *counting_malloc(size_t n)
{
	if (++alloc_seen == alloc_fail_at)
		return NULL;
	return malloc(n);
}

/* ---------------------------------------------------------------- helpers */
static bool parse_uint(const char *s, unsigned long max, unsigned long *out)
{
	char *end;

	if (!*s || strlen(s) > 9)
		return false;
	for (const char *p = s; *p; p++)
		if (!isdigit((unsigned char)*p))
			return false;
	*out = strtoul(s, &end, 10);
	return *end == 0 && *out <= max;
}

static struct rtr_socket **make_sockets(int pref, unsigned int n)
{
	struct rtr_socket **arr = calloc(n ? n : 1, sizeof(*arr));

	for (unsigned int i = 0; i < n; i++) {
		struct hsock *h = calloc(1, sizeof(*h));

		h->pref = pref;
		h->idx = (int)i;
		h->tr.socket = h;
		h->tr.open_fp = mock_open;
		h->tr.close_fp = mock_close;
		h->tr.free_fp = mock_free;
		h->tr.send_fp = mock_send;
		h->tr.recv_fp = mock_recv;
		h->tr.ident_fp = mock_ident;
		h->rtr.tr_socket = &h->tr;
		arr[i] = &h->rtr;
	}
	/* sockets are deliberately never freed: an FSM thread that left on its own (injected
	 * RTR_SHUTDOWN) may still be polling its socket
	 */
	return arr;
}

static void dump_group(const struct rtr_mgr_group *g, void *data)
{
	int *k = data;

	printf("%s%u:%s:", (*k)++ ? "|" : "", g->preference, status_name(g->status));
	for (unsigned int j = 0; j < g->sockets_len; j++) {
		const struct rtr_socket *s = g->sockets[j];

		printf("%s%d.%d.%d", j ? "," : "", (int)s->state, s->last_update != 0, s->thread_id != 0);
	}
}

static void observe(void)
{
	int k = 0;

	printf(" log=%s first=%u groups=", evlen ? evlog : "-", rtr_mgr_get_first_group(conf)->preference);
	rtr_mgr_for_each_group(conf, dump_group, &k);
	printf("\n");
}

struct find {
	unsigned int pref;
	const struct rtr_mgr_group *g;
};

static void find_group(const struct rtr_mgr_group *g, void *data)
{
	struct find *f = data;

	if (!f->g && g->preference == f->pref)
		f->g = g;
}

int main(void)
{
	char *line = NULL;
	size_t cap = 0;

	setvbuf(stdout, NULL, _IOLBF, 0);
	while (getline(&line, &cap, stdin) > 0) {
		char *w[MAXGROUPS + 4];
		int n = 0;

		for (char *tok = strtok(line, " \t\r\n"); tok && n < MAXGROUPS + 3; tok = strtok(NULL, " \t\r\n"))
			w[n++] = tok;
		ev_reset();
		if (n == 0) {
			puts("bad-op");
		} else if (!strcmp(w[0], "init") && !conf && n - 1 <= MAXGROUPS) {
			struct rtr_mgr_group groups[MAXGROUPS + 1];
			bool ok = true;
			int rc;

			memset(groups, 0, sizeof(groups));
			for (int i = 1; i < n && ok; i++) {
				char *c = strchr(w[i], ':');
				unsigned long p, k;

				if (!c) {
					ok = false;
					break;
				}
				*c = 0;
				if (!parse_uint(w[i], 255, &p) || !parse_uint(c + 1, MAXSOCKS, &k)) {
					ok = false;
					break;
				}
				groups[i - 1].preference = (uint8_t)p;
				groups[i - 1].sockets_len = (unsigned int)k;
				groups[i - 1].status = RTR_MGR_ERROR; /* must be overwritten by init */
			}
			if (!ok) {
				puts("bad-op");
				continue;
			}
			for (int i = 1; i < n; i++)
				groups[i - 1].sockets = make_sockets(groups[i - 1].preference, groups[i - 1].sockets_len);
			rc = rtr_mgr_init(&conf, groups, (unsigned int)(n - 1), 3600, 7200, 600, NULL, NULL, status_cb, NULL);
			printf("rc=%d", rc);
			if (rc == RTR_SUCCESS && conf) {
				observe();
			} else {
				if (conf)
					printf(" CONFIG-NOT-NULL");
				conf = NULL;
				printf("\n");
			}
		} else if (!strcmp(w[0], "ev") && conf && n == 5) {
			unsigned long p, i, st, sy;
			struct find f = {0, NULL};
			struct rtr_socket *s;
			time_t now = 0;

			if (!parse_uint(w[1], 255, &p) || !parse_uint(w[2], MAXSOCKS, &i) || !parse_uint(w[3], RTR_CLOSED, &st) ||
			    !parse_uint(w[4], 1, &sy)) {
				puts("bad-op");
				continue;
			}
			f.pref = (unsigned int)p;
			rtr_mgr_for_each_group(conf, find_group, &f);
			if (!f.g || i >= f.g->sockets_len) {
				puts("bad-op");
				continue;
			}
			s = f.g->sockets[i];
			lrtr_get_monotonic_time(&now);
			s->last_update = sy ? (now ? now : 1) : 0;
			rtr_change_socket_state(s, (enum rtr_socket_state)st);
			printf("rc=0");
			observe();
		} else if (((!strcmp(w[0], "add") && n == 3) || (!strcmp(w[0], "addf") && n == 4)) && conf) {
			unsigned long p, k, f = 0;
			struct rtr_mgr_group g;
			int rc;

			if (!parse_uint(w[1], 255, &p) || !parse_uint(w[2], MAXSOCKS, &k) || k == 0 ||
			    (n == 4 && (!parse_uint(w[3], 9, &f) || f == 0))) {
				puts("bad-op");
				continue;
			}
			memset(&g, 0, sizeof(g));
			g.preference = (uint8_t)p;
			g.sockets_len = (unsigned int)k;
			g.sockets = make_sockets((int)p, (unsigned int)k);
			g.status = RTR_MGR_ERROR; /* must be overwritten by add_group */
			if (f) {
				alloc_seen = 0;
				alloc_fail_at = f;
				lrtr_set_alloc_functions(counting_malloc, realloc, free);
			}
			rc = rtr_mgr_add_group(conf, &g);
			if (f)
				lrtr_set_alloc_functions(malloc, realloc, free);
			printf("rc=%d", rc);
			observe();
		} else if (!strcmp(w[0], "setiv") && conf && n == 5) {
			unsigned long p, a, b, c;
			struct find f = {0, NULL};
			struct rtr_socket *s;

			if (!parse_uint(w[1], 255, &p) || !parse_uint(w[2], 999999999, &a) ||
			    !parse_uint(w[3], 999999999, &b) || !parse_uint(w[4], 999999999, &c)) {
				puts("bad-op");
				continue;
			}
			f.pref = (unsigned int)p;
			rtr_mgr_for_each_group(conf, find_group, &f);
			if (!f.g) {
				puts("bad-op");
				continue;
			}
			s = f.g->sockets[0];
			s->refresh_interval = (unsigned int)a;
			s->expire_interval = (unsigned int)b;
			s->retry_interval = (unsigned int)c;
			printf("rc=0");
			observe();
		} else if (!strcmp(w[0], "remove") && conf && n == 2) {
			unsigned long p;
			int rc;

			if (!parse_uint(w[1], 100000, &p)) {
				puts("bad-op");
				continue;
			}
			rc = rtr_mgr_remove_group(conf, (unsigned int)p);
			printf("rc=%d", rc);
			observe();
		} else if (!strcmp(w[0], "start") && conf && n == 1) {
			int rc = rtr_mgr_start(conf);

			printf("rc=%d", rc);
			observe();
		} else if (!strcmp(w[0], "stop") && conf && n == 1) {
			rtr_mgr_stop(conf);
			printf("rc=0");
			observe();
		} else if (!strcmp(w[0], "free") && n == 1) {
			if (conf) {
				rtr_mgr_stop(conf);
				rtr_mgr_free(conf);
				conf = NULL;
			}
			puts("ok");
		} else {
			puts("bad-op");
		}
	}
	if (conf) {
		rtr_mgr_stop(conf);
		rtr_mgr_free(conf);
	}
	free(line);
	return 0;
}
