/* end of the region in which calls are traced (see xtrace.h) */
#ifdef XTRACE_ACTIVE
#undef pthread_create
#undef tr_open
#undef tr_close
#undef rtr_send_serial_query
#undef rtr_send_reset_query
#undef rtr_sync
#undef rtr_wait_for_sync
#undef rtr_change_socket_state
#undef sleep
#undef pfx_table_src_remove
#undef spki_table_src_remove
#undef pthread_setcancelstate
#undef lrtr_get_monotonic_time
#endif
