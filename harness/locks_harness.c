/*
 * Concurrency harness for C16 / C06 (built with clang-14 -fsanitize=thread from /repo's current tree).
 *
 *   locks_harness stress <script>    N reader threads + 1 writer thread on one live prefix table and one live
 *                                    router-key table.  The writer executes the script's operations (add / remove /
 *                                    src_remove on both tables, and full reloads through the REAL
 *                                    rtr_sync_receive_and_store_pdus() fed by a scripted transport).  Readers run
 *                                    the script's probes (validate_r, for_each v4/v6, get_all, search_by_ski) and
 *                                    log every result together with the window of the writer's operation counter:
 *                                    a = operations completed before the call, b = operations started before the return.
 *                                    Writer op `kcheck` (sequential variant of C06): the writing thread itself enumerates
 *                                    the live router-key table through spki_table_search_by_ski (all 256 constant-byte
 *                                    SKIs) and looks every listed key up again through spki_table_get_all; "K" line.
 *                                    Every reload also logs the geometry of the live router-key hash table before and
 *                                    after ("G" line, and an "H" history line on stderr that survives a crash).
 *   locks_harness xtable <script>    C06 cross-table schedule: a reader is parked inside a read section of one live table
 *                                    (header `park spki` = router-key table, the default, or `park pfx`; the harness
 *                                    holds the read lock on its behalf) while the real reload runs; a second reader
 *                                    alternately validates a route and then looks up a router key, and looks up the key
 *                                    and then validates.  The data set is prefixes AND router keys: the reader must never
 *                                    see new prefixes and afterwards old keys, nor new keys and afterwards old prefixes.
 *                                    (With the two swaps in two critical sections the first happens under `park spki`:
 *                                    known finding C06/cross-table until the reload got one combined section.)
 *
 * Output: "W <k> <rc>" per writer operation, "G <k> <count> <buckets> <count'> <buckets'>" per reload,
 *         "K <k> <nlist> <hlist> <nfound> <hfound> <hashcount> <buckets>" per kcheck,
 *         "R <tid> <probe> <a> <b> <state> <count> <hash>" per reader observation, "X ..." lines in xtable mode, "done" at the end.  ThreadSanitizer reports go to TSAN_OPTIONS=log_path.
 * The version counters use relaxed atomics so that they do not add happens-before edges that would hide races.
 */
#define _GNU_SOURCE
#include "rtrlib/rtr/packets.c"

#include <pthread.h>
#include <sched.h>
#include <stdatomic.h>
#include <stdio.h>
#include <unistd.h>

#define NSRC 4
#define MAXOPS 200000
#define MAXPROBES 4096
#define MAXREADERS 16

static struct pfx_table live_pfx;
static struct spki_table live_spki;
static struct rtr_socket socks[NSRC];
static struct tr_socket trs[NSRC];

struct mock {
	uint8_t *buf;
	size_t len, pos;
};
static struct mock mocks[NSRC];

static int m_recv(const void *sock, void *pdu, const size_t len, const time_t timeout)
{
	struct mock *m = (struct mock *)sock;
	size_t n = len;

	(void)timeout;
	if (m->pos >= m->len)
		return TR_WOULDBLOCK;
	if (n > m->len - m->pos)
		n = m->len - m->pos;
	memcpy(pdu, m->buf + m->pos, n);
	m->pos += n;
	return (int)n;
}

static int m_send(const void *sock, const void *pdu, const size_t len, const time_t timeout)
{
	(void)sock;
	(void)pdu;
	(void)timeout;
	return (int)len;
}

static int m_open(void *s)
{
	(void)s;
	return TR_SUCCESS;
}
static void m_close(void *s)
{
	(void)s;
}
static void m_free(struct tr_socket *s)
{
	(void)s;
}
static const char *m_ident(void *s)
{
	(void)s;
	return "mock";
}

/* ---- hashing of result sets (order independent) --------------------------------------------------------- */
static uint64_t fnv(const uint32_t *w, int n)
{
	uint64_t h = 1469598103934665603ULL;

	for (int i = 0; i < n; i++) {
		h ^= w[i];
		h *= 1099511628211ULL;
	}
	return h;
}

static int srcid(const struct rtr_socket *s)
{
	if (s >= socks && s < socks + NSRC)
		return (int)(s - socks);
	return 99;
}

static uint64_t hash_pfx(const struct pfx_record *r)
{
	uint32_t w[9];
	int n = 0;

	w[n++] = r->prefix.ver == LRTR_IPV4 ? 4 : 6;
	if (r->prefix.ver == LRTR_IPV4) {
		w[n++] = r->prefix.u.addr4.addr;
	} else {
		for (int i = 0; i < 4; i++)
			w[n++] = r->prefix.u.addr6.addr[i];
	}
	w[n++] = r->min_len;
	w[n++] = r->max_len;
	w[n++] = r->asn;
	w[n++] = (uint32_t)srcid(r->socket);
	return fnv(w, n);
}

static uint64_t hash_key(const struct spki_record *r)
{
	uint32_t w[4];

	w[0] = r->asn;
	w[1] = r->ski[0];
	w[2] = r->spki[0];
	w[3] = (uint32_t)srcid(r->socket);
	return fnv(w, 4);
}

/* ---- script ------------------------------------------------------------------------------------------- */
enum opk { OP_ADD, OP_RM, OP_SRCRM, OP_KADD, OP_KRM, OP_KSRCRM, OP_RELOAD, OP_PAUSE, OP_KCHECK };
struct op {
	enum opk k;
	struct pfx_record pr;
	struct spki_record kr;
	int src;
	unsigned int usec;
	uint8_t *pdus; /* reload: byte stream */
	size_t pdulen;
	unsigned int npfx, nkeys; /* reload: announced records */
};
enum prk { PR_VAL, PR_E4, PR_E6, PR_KEY, PR_SKI };
struct probe {
	enum prk k;
	struct lrtr_ip_addr addr;
	uint8_t len;
	uint32_t asn;
	uint8_t ski;
};

static struct op *ops;
static int nops;
static struct probe probes[MAXPROBES];
static int nprobes;
static int nreaders = 4;
static int minreads = 50;
static int maxrec = 100000;
static int history; /* header `history 1`: log reloads / kchecks on stderr as they happen (survives a crash) */
static int park_pfx; /* xtable: header `park pfx`: the parked reader sits in the prefix table (default: router-key table) */

static _Atomic unsigned int ver_begin, ver_end;
static _Atomic int writer_done;
static _Atomic int readers_ready;
static _Atomic unsigned long cb_count;

struct obs {
	uint16_t probe;
	uint32_t a, b;
	uint32_t state, count;
	uint64_t hash;
};
static struct obs *obsbuf[MAXREADERS];
static int nobs[MAXREADERS];

static void pfx_cb(struct pfx_table *t, const struct pfx_record r, const bool added)
{
	(void)t;
	(void)r;
	(void)added;
	atomic_fetch_add_explicit(&cb_count, 1, memory_order_relaxed);
}
static void spki_cb(struct spki_table *t, const struct spki_record r, const bool added)
{
	(void)t;
	(void)r;
	(void)added;
	atomic_fetch_add_explicit(&cb_count, 1, memory_order_relaxed);
}

static bool parse_addr(const char *v, const char *hex, struct lrtr_ip_addr *a)
{
	char pad[33];
	size_t n = strlen(hex);

	memset(a, 0, sizeof(*a));
	if (!strcmp(v, "4")) {
		a->ver = LRTR_IPV4;
		a->u.addr4.addr = (uint32_t)strtoul(hex, NULL, 16);
		return n <= 8;
	}
	if (strcmp(v, "6") || n > 32)
		return false;
	memset(pad, '0', 32);
	pad[32] = 0;
	memcpy(pad + 32 - n, hex, n);
	a->ver = LRTR_IPV6;
	for (int w = 0; w < 4; w++) {
		char part[9];

		memcpy(part, pad + 8 * w, 8);
		part[8] = 0;
		a->u.addr6.addr[w] = (uint32_t)strtoul(part, NULL, 16);
	}
	return true;
}

static void mk_key(struct spki_record *k, uint32_t asn, int ski, int spki, int src)
{
	memset(k, 0, sizeof(*k));
	k->asn = asn;
	memset(k->ski, ski, SKI_SIZE);
	memset(k->spki, spki, SPKI_SIZE);
	k->socket = &socks[src];
}

static void put32(uint8_t *p, uint32_t v)
{
	p[0] = (uint8_t)(v >> 24);
	p[1] = (uint8_t)(v >> 16);
	p[2] = (uint8_t)(v >> 8);
	p[3] = (uint8_t)v;
}

static void append(struct op *o, const uint8_t *b, size_t n)
{
	o->pdus = realloc(o->pdus, o->pdulen + n);
	memcpy(o->pdus + o->pdulen, b, n);
	o->pdulen += n;
}

static void append_pfx_pdu(struct op *o, const struct pfx_record *r)
{
	uint8_t b[32];

	memset(b, 0, sizeof(b));
	b[0] = 1;
	if (r->prefix.ver == LRTR_IPV4) {
		b[1] = 4;
		put32(b + 4, 20);
		b[8] = 1;
		b[9] = r->min_len;
		b[10] = r->max_len;
		put32(b + 12, r->prefix.u.addr4.addr);
		put32(b + 16, r->asn);
		append(o, b, 20);
	} else {
		b[1] = 6;
		put32(b + 4, 32);
		b[8] = 1;
		b[9] = r->min_len;
		b[10] = r->max_len;
		for (int i = 0; i < 4; i++)
			put32(b + 12 + 4 * i, r->prefix.u.addr6.addr[i]);
		put32(b + 28, r->asn);
		append(o, b, 32);
	}
}

static void append_key_pdu(struct op *o, const struct spki_record *k)
{
	uint8_t b[123];

	memset(b, 0, sizeof(b));
	b[0] = 1;
	b[1] = 9;
	b[2] = 1;
	put32(b + 4, 123);
	memcpy(b + 8, k->ski, SKI_SIZE);
	put32(b + 28, k->asn);
	memcpy(b + 32, k->spki, SPKI_SIZE);
	append(o, b, 123);
}

static void append_eod(struct op *o, uint16_t session)
{
	uint8_t b[24];

	memset(b, 0, sizeof(b));
	b[0] = 1;
	b[1] = 7;
	b[2] = (uint8_t)(session >> 8);
	b[3] = (uint8_t)session;
	put32(b + 4, 24);
	put32(b + 8, 1);
	put32(b + 12, 3600);
	put32(b + 16, 600);
	put32(b + 20, 7200);
	append(o, b, 24);
}

static bool parse_rec(char **w, int n, struct pfx_record *r, int *src, bool withsrc)
{
	if (n < (withsrc ? 6 : 5))
		return false;
	if (!parse_addr(w[0], w[1], &r->prefix))
		return false;
	r->min_len = (uint8_t)atoi(w[2]);
	r->max_len = (uint8_t)atoi(w[3]);
	r->asn = (uint32_t)strtoul(w[4], NULL, 10);
	*src = withsrc ? atoi(w[5]) : 0;
	if (*src < 0 || *src >= NSRC)
		return false;
	r->socket = &socks[*src];
	return true;
}

static bool load_script(const char *path)
{
	FILE *f = fopen(path, "r");
	char *line = NULL;
	size_t cap = 0;
	struct op *cur = NULL;

	if (!f)
		return false;
	ops = calloc(MAXOPS, sizeof(*ops));
	while (getline(&line, &cap, f) > 0) {
		char *w[16];
		int n = 0;

		for (char *tok = strtok(line, " \t\r\n"); tok && n < 16; tok = strtok(NULL, " \t\r\n"))
			w[n++] = tok;
		if (n == 0 || w[0][0] == '#')
			continue;
		if (nops >= MAXOPS - 1)
			return false;
		if (!strcmp(w[0], "readers") && n == 2) {
			nreaders = atoi(w[1]);
			if (nreaders < 0 || nreaders > MAXREADERS)
				return false;
		} else if (!strcmp(w[0], "minreads") && n == 2) {
			minreads = atoi(w[1]);
		} else if (!strcmp(w[0], "maxrec") && n == 2) {
			maxrec = atoi(w[1]);
		} else if (!strcmp(w[0], "history") && n == 2) {
			history = atoi(w[1]);
		} else if (!strcmp(w[0], "park") && n == 2) {
			if (strcmp(w[1], "pfx") && strcmp(w[1], "spki"))
				return false;
			park_pfx = !strcmp(w[1], "pfx");
		} else if (!strcmp(w[0], "probe") && n >= 2) {
			struct probe *p;

			if (nprobes >= MAXPROBES)
				return false;
			p = &probes[nprobes];
			if (!strcmp(w[1], "v") && n == 6) {
				p->k = PR_VAL;
				if (!parse_addr(w[2], w[3], &p->addr))
					return false;
				p->len = (uint8_t)atoi(w[4]);
				p->asn = (uint32_t)strtoul(w[5], NULL, 10);
			} else if (!strcmp(w[1], "e4") && n == 2) {
				p->k = PR_E4;
			} else if (!strcmp(w[1], "e6") && n == 2) {
				p->k = PR_E6;
			} else if (!strcmp(w[1], "k") && n == 4) {
				p->k = PR_KEY;
				p->asn = (uint32_t)strtoul(w[2], NULL, 10);
				p->ski = (uint8_t)atoi(w[3]);
			} else if (!strcmp(w[1], "s") && n == 3) {
				p->k = PR_SKI;
				p->ski = (uint8_t)atoi(w[2]);
			} else {
				return false;
			}
			nprobes++;
		} else if ((!strcmp(w[0], "add") || !strcmp(w[0], "rm")) && n == 7) {
			struct op *o = &ops[nops++];

			o->k = !strcmp(w[0], "add") ? OP_ADD : OP_RM;
			if (!parse_rec(w + 1, 6, &o->pr, &o->src, true))
				return false;
		} else if (!strcmp(w[0], "srcrm") && n == 2) {
			struct op *o = &ops[nops++];

			o->k = OP_SRCRM;
			o->src = atoi(w[1]);
		} else if ((!strcmp(w[0], "kadd") || !strcmp(w[0], "krm")) && n == 5) {
			struct op *o = &ops[nops++];

			o->k = !strcmp(w[0], "kadd") ? OP_KADD : OP_KRM;
			o->src = atoi(w[4]);
			if (o->src < 0 || o->src >= NSRC)
				return false;
			mk_key(&o->kr, (uint32_t)strtoul(w[1], NULL, 10), atoi(w[2]), atoi(w[3]), o->src);
		} else if (!strcmp(w[0], "ksrcrm") && n == 2) {
			struct op *o = &ops[nops++];

			o->k = OP_KSRCRM;
			o->src = atoi(w[1]);
		} else if (!strcmp(w[0], "kcheck") && n == 1) {
			struct op *o = &ops[nops++];

			o->k = OP_KCHECK;
		} else if (!strcmp(w[0], "pause") && n == 2) {
			struct op *o = &ops[nops++];

			o->k = OP_PAUSE;
			o->usec = (unsigned int)atoi(w[1]);
		} else if (!strcmp(w[0], "reload") && n == 2) {
			cur = &ops[nops++];
			cur->k = OP_RELOAD;
			cur->src = atoi(w[1]);
			if (cur->src < 0 || cur->src >= NSRC)
				return false;
		} else if (!strcmp(w[0], "r") && cur && n >= 2) {
			if (!strcmp(w[1], "p") && n == 7) {
				struct pfx_record r;
				int s;

				if (!parse_rec(w + 2, 5, &r, &s, false))
					return false;
				append_pfx_pdu(cur, &r);
				cur->npfx++;
			} else if (!strcmp(w[1], "k") && n == 5) {
				struct spki_record k;

				mk_key(&k, (uint32_t)strtoul(w[2], NULL, 10), atoi(w[3]), atoi(w[4]), cur->src);
				append_key_pdu(cur, &k);
				cur->nkeys++;
			} else {
				return false;
			}
		} else if (!strcmp(w[0], "endreload") && cur) {
			append_eod(cur, 7);
			cur = NULL;
		} else {
			fprintf(stdout, "bad-op %s\n", w[0]);
			return false;
		}
	}
	free(line);
	fclose(f);
	return true;
}

/* ---- geometry of the live router-key hash table (public tommyds calls only; called by the writing thread) -------- */
struct geo {
	unsigned int count, buckets;
};
static unsigned int cur_op; /* index of the writer operation being executed */

struct geolog {
	unsigned int k;
	struct geo before, after;
};
static struct geolog *geolog;
static int ngeolog;

struct kchk {
	unsigned int k, nlist, nfound, hashcount, buckets;
	uint64_t hlist, hfound;
};
static struct kchk *kchklog;
static int nkchklog;

static struct geo live_geo(void)
{
	struct geo g;
	size_t mem = tommy_hashlin_memory_usage(&live_spki.hashtable);

	g.count = (unsigned int)tommy_hashlin_count(&live_spki.hashtable);
	g.buckets = (unsigned int)((mem - (size_t)g.count * sizeof(tommy_hashlin_node)) / sizeof(void *));
	return g;
}

/* ---- the real reload path ------------------------------------------------------------------------------ */
static int do_reload(struct op *o)
{
	struct rtr_socket *s = &socks[o->src];
	struct mock *m = &mocks[o->src];
	struct geo g0 = live_geo(), g1;
	int rc;

	if (history)
		fprintf(stderr, "H op=%u reload src=%d announces %u prefixes %u router keys; live router-key table before: %u keys in %u buckets\n",
		cur_op, o->src, o->npfx, o->nkeys, g0.count, g0.buckets);
	m->buf = o->pdus;
	m->len = o->pdulen;
	m->pos = 0;
	s->is_resetting = true;
	s->state = RTR_SYNC;
	rc = rtr_sync_receive_and_store_pdus(s);
	g1 = live_geo();
	if (history)
		fprintf(stderr, "H op=%u reload rc=%d; live router-key table after: %u keys in %u buckets\n", cur_op, rc, g1.count,
		g1.buckets);
	if (geolog) {
		geolog[ngeolog].k = cur_op;
		geolog[ngeolog].before = g0;
		geolog[ngeolog].after = g1;
		ngeolog++;
	}
	return rc;
}

/* sequential check by the writing thread: the list side (search_by_ski over every constant-byte SKI = every key a
 * script can store) and the hash side (get_all of every listed key must return that very record) */
static int do_kcheck(void)
{
	struct kchk c;
	struct geo g;

	memset(&c, 0, sizeof(c));
	c.k = cur_op;
	if (history)
		fprintf(stderr, "H op=%u kcheck (enumerate the live router-key table, look every key up)\n", cur_op);
	for (int b = 0; b < 256; b++) {
		struct spki_record *res = NULL;
		unsigned int n = 0;
		uint8_t ski[SKI_SIZE];

		memset(ski, b, SKI_SIZE);
		if (spki_table_search_by_ski(&live_spki, ski, &res, &n) != SPKI_SUCCESS)
			return -1;
		for (unsigned int i = 0; i < n; i++) {
			struct spki_record *r2 = NULL;
			unsigned int n2 = 0;

			c.nlist++;
			c.hlist += hash_key(&res[i]);
			if (spki_table_get_all(&live_spki, res[i].asn, res[i].ski, &r2, &n2) != SPKI_SUCCESS) {
				free(res);
				return -2;
			}
			for (unsigned int j = 0; j < n2; j++) {
				if (r2[j].asn == res[i].asn && r2[j].socket == res[i].socket &&
				    !memcmp(r2[j].ski, res[i].ski, SKI_SIZE) && !memcmp(r2[j].spki, res[i].spki, SPKI_SIZE)) {
					c.nfound++;
					c.hfound += hash_key(&r2[j]);
					break;
				}
			}
			free(r2);
		}
		free(res);
	}
	g = live_geo();
	c.hashcount = g.count;
	c.buckets = g.buckets;
	if (kchklog)
		kchklog[nkchklog++] = c;
	return 0;
}

static int exec_op(struct op *o)
{
	switch (o->k) {
	case OP_ADD:
		return pfx_table_add(&live_pfx, &o->pr);
	case OP_RM:
		return pfx_table_remove(&live_pfx, &o->pr);
	case OP_SRCRM:
		return pfx_table_src_remove(&live_pfx, &socks[o->src]);
	case OP_KADD:
		return spki_table_add_entry(&live_spki, &o->kr);
	case OP_KRM:
		return spki_table_remove_entry(&live_spki, &o->kr);
	case OP_KSRCRM:
		return spki_table_src_remove(&live_spki, &socks[o->src]);
	case OP_RELOAD:
		return do_reload(o);
	case OP_KCHECK:
		return do_kcheck();
	case OP_PAUSE:
		usleep(o->usec);
		return 0;
	}
	return -99;
}

/* ---- readers -------------------------------------------------------------------------------------------- */
struct enum_acc {
	uint32_t count;
	uint64_t hash;
};

static void enum_cb(const struct pfx_record *r, void *data)
{
	struct enum_acc *a = data;

	a->count++;
	a->hash += hash_pfx(r);
}

static void run_probe(const struct probe *p, struct obs *o)
{
	o->state = 0;
	o->count = 0;
	o->hash = 0;
	switch (p->k) {
	case PR_VAL: {
		struct pfx_record *reason = NULL;
		unsigned int rlen = 0;
		enum pfxv_state st = BGP_PFXV_STATE_NOT_FOUND;
		int rc = pfx_table_validate_r(&live_pfx, &reason, &rlen, p->asn, &p->addr, p->len, &st);

		o->state = rc == PFX_SUCCESS ? (uint32_t)st : 77;
		o->count = rlen;
		for (unsigned int i = 0; i < rlen; i++)
			o->hash += hash_pfx(&reason[i]);
		free(reason);
		break;
	}
	case PR_E4:
	case PR_E6: {
		struct enum_acc a = {0, 0};

		if (p->k == PR_E4)
			pfx_table_for_each_ipv4_record(&live_pfx, enum_cb, &a);
		else
			pfx_table_for_each_ipv6_record(&live_pfx, enum_cb, &a);
		o->count = a.count;
		o->hash = a.hash;
		break;
	}
	case PR_KEY:
	case PR_SKI: {
		struct spki_record *res = NULL;
		unsigned int n = 0;
		uint8_t ski[SKI_SIZE];
		int rc;

		memset(ski, p->ski, SKI_SIZE);
		if (p->k == PR_KEY)
			rc = spki_table_get_all(&live_spki, p->asn, ski, &res, &n);
		else
			rc = spki_table_search_by_ski(&live_spki, ski, &res, &n);
		o->state = rc == SPKI_SUCCESS ? 0 : 77;
		o->count = n;
		for (unsigned int i = 0; i < n; i++)
			o->hash += hash_key(&res[i]);
		free(res);
		break;
	}
	}
}

static void *reader_main(void *arg)
{
	int tid = (int)(intptr_t)arg;
	unsigned int x = 12345u + 7919u * (unsigned int)tid;
	long iter = 0;
	bool announced = false;

	while (nprobes > 0) {
		struct obs o;
		int pi;

		x = x * 1103515245u + 12345u;
		pi = (int)((x >> 8) % (unsigned int)nprobes);
		o.probe = (uint16_t)pi;
		o.a = atomic_load_explicit(&ver_end, memory_order_relaxed);
		run_probe(&probes[pi], &o);
		o.b = atomic_load_explicit(&ver_begin, memory_order_relaxed);
		if (nobs[tid] < maxrec)
			obsbuf[tid][nobs[tid]++] = o;
		iter++;
		if (!announced && iter >= 3) {
			atomic_fetch_add_explicit(&readers_ready, 1, memory_order_relaxed);
			announced = true;
		}
		if (atomic_load_explicit(&writer_done, memory_order_relaxed) && iter >= minreads)
			break;
	}
	if (!announced)
		atomic_fetch_add_explicit(&readers_ready, 1, memory_order_relaxed);
	return NULL;
}

static void init_tables(void)
{
	pfx_table_init(&live_pfx, pfx_cb);
	spki_table_init(&live_spki, spki_cb);
	for (int i = 0; i < NSRC; i++) {
		memset(&socks[i], 0, sizeof(socks[i]));
		trs[i].socket = &mocks[i];
		trs[i].open_fp = m_open;
		trs[i].close_fp = m_close;
		trs[i].free_fp = m_free;
		trs[i].send_fp = m_send;
		trs[i].recv_fp = m_recv;
		trs[i].ident_fp = m_ident;
		socks[i].tr_socket = &trs[i];
		socks[i].pfx_table = &live_pfx;
		socks[i].spki_table = &live_spki;
		socks[i].version = RTR_PROTOCOL_VERSION_1;
		socks[i].has_received_pdus = true;
		socks[i].session_id = 7;
		socks[i].iv_mode = RTR_INTERVAL_MODE_IGNORE_ANY;
		socks[i].state = RTR_SYNC;
		socks[i].refresh_interval = 3600;
		socks[i].retry_interval = 600;
		socks[i].expire_interval = 7200;
	}
}

static int stress(void)
{
	pthread_t th[MAXREADERS];
	int *rcs = calloc((size_t)nops + 1, sizeof(int));

	geolog = calloc((size_t)nops + 1, sizeof(*geolog));
	kchklog = calloc((size_t)nops + 1, sizeof(*kchklog));
	for (int i = 0; i < nreaders; i++) {
		obsbuf[i] = calloc((size_t)maxrec, sizeof(struct obs));
		pthread_create(&th[i], NULL, reader_main, (void *)(intptr_t)i);
	}
	/* the readers must be running before the writer starts */
	while (atomic_load_explicit(&readers_ready, memory_order_relaxed) < nreaders)
		sched_yield();
	unsigned int k = 0;

	for (int i = 0; i < nops; i++) {
		if (ops[i].k == OP_PAUSE) {
			exec_op(&ops[i]);
			continue;
		}
		k++;
		cur_op = k;
		atomic_store_explicit(&ver_begin, k, memory_order_relaxed);
		rcs[k] = exec_op(&ops[i]);
		atomic_store_explicit(&ver_end, k, memory_order_relaxed);
		sched_yield();
	}
	atomic_store_explicit(&writer_done, 1, memory_order_relaxed);
	for (int i = 0; i < nreaders; i++)
		pthread_join(th[i], NULL);
	for (unsigned int j = 1; j <= k; j++)
		printf("W %u %d\n", j, rcs[j]);
	for (int j = 0; j < ngeolog; j++)
		printf("G %u %u %u %u %u\n", geolog[j].k, geolog[j].before.count, geolog[j].before.buckets, geolog[j].after.count,
		       geolog[j].after.buckets);
	for (int j = 0; j < nkchklog; j++)
		printf("K %u %u %llu %u %llu %u %u\n", kchklog[j].k, kchklog[j].nlist, (unsigned long long)kchklog[j].hlist,
		       kchklog[j].nfound, (unsigned long long)kchklog[j].hfound, kchklog[j].hashcount, kchklog[j].buckets);
	for (int t = 0; t < nreaders; t++)
		for (int i = 0; i < nobs[t]; i++) {
			struct obs *o = &obsbuf[t][i];

			printf("R %d %u %u %u %u %u %llu\n", t, o->probe, o->a, o->b, o->state, o->count,
			       (unsigned long long)o->hash);
		}
	/* final contents, single threaded */
	{
		struct enum_acc a4 = {0, 0}, a6 = {0, 0};

		pfx_table_for_each_ipv4_record(&live_pfx, enum_cb, &a4);
		pfx_table_for_each_ipv6_record(&live_pfx, enum_cb, &a6);
		printf("F %u %llu %u %llu\n", a4.count, (unsigned long long)a4.hash, a6.count, (unsigned long long)a6.hash);
	}
	printf("cb %lu\n", (unsigned long)atomic_load(&cb_count));
	return 0;
}

/* ---- C06 cross-table schedule --------------------------------------------------------------------------- */
static _Atomic int x_stop, x_seen_new_old, x_seen_new_pfx, x_seen_new_keys, x_seen_newkeys_oldpfx, x_rounds;
static _Atomic int x_first_v = -1, x_first_k = -1, x_gap_v = -1, x_gap_k = -1;

static void *xreader(void *arg)
{
	const struct probe *pv = &probes[0], *pk = &probes[1];
	struct obs first_v, first_k;
	bool have_first = false;
	unsigned int round = 0;

	(void)arg;
	while (!atomic_load_explicit(&x_stop, memory_order_relaxed)) {
		struct obs ov, ok;
		bool v_first = !have_first || (round++ & 1) == 0;
		bool v_new, k_new;

		if (v_first) {
			run_probe(pv, &ov);   /* route validation … */
			run_probe(pk, &ok);   /* … then router-key look-up */
		} else {
			run_probe(pk, &ok);   /* router-key look-up … */
			run_probe(pv, &ov);   /* … then route validation */
		}
		if (!have_first) {
			first_v = ov;
			first_k = ok;
			have_first = true;
			atomic_store(&x_first_v, (int)ov.state);
			atomic_store(&x_first_k, (int)ok.count);
		}
		v_new = ov.state != first_v.state;
		k_new = !(ok.count == first_k.count && ok.hash == first_k.hash);
		if (v_new)
			atomic_store_explicit(&x_seen_new_pfx, 1, memory_order_relaxed);
		if (k_new)
			atomic_store_explicit(&x_seen_new_keys, 1, memory_order_relaxed);
		/* the second observation is the later one: new data first and old data of the other table afterwards */
		if (v_first && v_new && !k_new && !atomic_load_explicit(&x_seen_new_old, memory_order_relaxed)) {
			atomic_store(&x_gap_v, (int)ov.state);
			atomic_store(&x_gap_k, (int)ok.count);
			atomic_store_explicit(&x_seen_new_old, 1, memory_order_relaxed);
		}
		if (!v_first && k_new && !v_new)
			atomic_store_explicit(&x_seen_newkeys_oldpfx, 1, memory_order_relaxed);
		atomic_fetch_add_explicit(&x_rounds, 1, memory_order_relaxed);
		sched_yield();
	}
	return NULL;
}

static void *xsync(void *arg)
{
	struct op *o = arg;

	return (void *)(intptr_t)do_reload(o);
}

static int xtable(void)
{
	pthread_t rt, st;
	struct op *reload = NULL;
	void *rc;
	struct obs fv, fk;
	int parked_in_section = 0, busy = 0, rounds_before, rounds_parked;

	if (nprobes < 2 || probes[0].k != PR_VAL || probes[1].k != PR_KEY) {
		puts("bad-op xtable needs a validation probe and a key probe");
		return 2;
	}
	/* initial contents: every op before the reload */
	for (int i = 0; i < nops; i++) {
		if (ops[i].k == OP_RELOAD) {
			reload = &ops[i];
			break;
		}
		exec_op(&ops[i]);
	}
	if (!reload) {
		puts("bad-op no reload");
		return 2;
	}
	pthread_create(&rt, NULL, xreader, NULL);
	while (atomic_load(&x_first_v) < 0)
		sched_yield();
	/* a reader parked inside a read critical section of one live table (as if preempted inside spki_table_get_all /
	 * pfx_table_validate_r): the harness holds the read lock on its behalf */
	if (park_pfx)
		pthread_rwlock_rdlock(&live_pfx.lock);
	else
		pthread_rwlock_rdlock(&live_spki.lock);
	rounds_before = atomic_load(&x_rounds);
	pthread_create(&st, NULL, xsync, reload);
	/* wait until the second reader has seen new data of the table that is not parked, or - `park spki` - until the
	 * synchronising thread sits inside a write section of the prefix table (it holds that lock and waits for ours: the
	 * combined section of the repaired code; the second reader then waits for the prefix table as well), or until the
	 * reload had ample time to reach its swap */
	for (int i = 0; i < (park_pfx ? 800 : 4000); i++) {
		if (atomic_load_explicit(park_pfx ? &x_seen_new_keys : &x_seen_new_pfx, memory_order_relaxed))
			break;
		if (!park_pfx) {
			if (pthread_rwlock_tryrdlock(&live_pfx.lock) == 0) {
				pthread_rwlock_unlock(&live_pfx.lock);
				busy = 0;
			} else if (++busy >= 60) {
				parked_in_section = 1;
				break;
			}
		}
		usleep(500);
	}
	/* … and give it time to make the second observation of the pair */
	for (int i = 0; i < 400 && !parked_in_section &&
			atomic_load_explicit(park_pfx ? &x_seen_new_keys : &x_seen_new_pfx, memory_order_relaxed) &&
			!atomic_load_explicit(park_pfx ? &x_seen_newkeys_oldpfx : &x_seen_new_old, memory_order_relaxed); i++)
		usleep(500);
	rounds_parked = atomic_load(&x_rounds) - rounds_before;
	if (park_pfx)
		pthread_rwlock_unlock(&live_pfx.lock);
	else
		pthread_rwlock_unlock(&live_spki.lock);
	pthread_join(st, &rc);
	/* a few more rounds of the second reader after the reload */
	for (int i = 0, r0 = atomic_load(&x_rounds); i < 2000 && atomic_load(&x_rounds) < r0 + 4; i++)
		usleep(200);
	atomic_store_explicit(&x_stop, 1, memory_order_relaxed);
	pthread_join(rt, NULL);
	run_probe(&probes[0], &fv);
	run_probe(&probes[1], &fk);
	printf("X park=%s reload_rc=%d first_pfx=%d first_keys=%d saw_new_pfx=%d saw_new_keys=%d saw_new_pfx_with_old_keys=%d "
	       "saw_new_keys_with_old_pfx=%d gap_pfx=%d gap_keys=%d sync_parked_inside_pfx_section=%d reader_rounds_while_parked=%d "
	       "final_pfx=%u final_keys=%u\n",
	       park_pfx ? "pfx" : "spki", (int)(intptr_t)rc, atomic_load(&x_first_v), atomic_load(&x_first_k),
	       atomic_load(&x_seen_new_pfx), atomic_load(&x_seen_new_keys), atomic_load(&x_seen_new_old),
	       atomic_load(&x_seen_newkeys_oldpfx), atomic_load(&x_gap_v), atomic_load(&x_gap_k), parked_in_section,
	       rounds_parked, fv.state, fk.count);
	return 0;
}

int main(int argc, char **argv)
{
	int rc;

	setvbuf(stdout, NULL, _IOFBF, 1 << 20);
	if (argc != 3) {
		puts("bad-op usage");
		return 2;
	}
	init_tables();
	if (!load_script(argv[2])) {
		puts("bad-op script");
		return 2;
	}
	if (!strcmp(argv[1], "stress"))
		rc = stress();
	else if (!strcmp(argv[1], "xtable"))
		rc = xtable();
	else {
		puts("bad-op mode");
		return 2;
	}
	puts("done");
	fflush(stdout);
	return rc;
}
