/*
 * Implementation-side executor of the BGPsec line protocol (C11, C12).
 *
 * The real functions of /repo are executed in-process:
 *   size / align      req_stream_size + align_byte_sequence (non-static) on a struct rtr_bgpsec built
 *                     from the request line; the private `struct stream` is visible because this file
 *                     #includes rtrlib/bgpsec/bgpsec_utils.c (the way the repo's unit tests do)
 *   validate          rtr_bgpsec_validate_as_path against a real spki_table filled from the line
 *   gensig            rtr_bgpsec_generate_signature
 *   validate-nonlri / gensig-nonlri   the same with data->nlri == NULL
 * Independent of rtrlib (plain OpenSSL, never touching rtrlib's layout code):
 *   keygen            fresh P-256 key: private key DER (121 B), SubjectPublicKeyInfo DER (91 B), SKI
 *   sign              ECDSA over SHA-256 of the message bytes GIVEN ON THE LINE (computed by the Lean spec)
 *   verify            ECDSA_verify over SHA-256 of the message bytes given on the line: v / n / e
 *   dercheck          strict DER well-formedness of an ECDSA-Sig-Value
 *
 * Path description D (all numbers decimal unless "hex"):
 *   <alg> <afi> <safi> <nlri.afi> <nlri_len> <nlrihex|-> <target_as> <np> {pcount:flags:asn}*np <ns> {ski40hex:sig_len:sighex}*ns
 * The lists are in "AS path order" (most recent first), as rtrlib expects them.
 * Key table K:  K <k> {asn:ski40hex:spki182hex}*k     (insertion order)
 */
#define _GNU_SOURCE
#include "rtrlib/bgpsec/bgpsec_private.h"
#include "rtrlib/bgpsec/bgpsec_utils.c"
#include "rtrlib/spki/hashtable/ht-spkitable_private.h"

#include <ctype.h>
#include <openssl/bn.h>
#include <openssl/ec.h>
#include <openssl/ecdsa.h>
#include <openssl/evp.h>
#include <openssl/obj_mac.h>
#include <openssl/sha.h>
#include <stdbool.h>
#include <stdio.h>
#include <stdlib.h>
#include <string.h>

#define MAXTOK 4096
static char *tok[MAXTOK];
static int ntok;

static int hexval(int c)
{
	if (c >= '0' && c <= '9')
		return c - '0';
	if (c >= 'a' && c <= 'f')
		return c - 'a' + 10;
	if (c >= 'A' && c <= 'F')
		return c - 'A' + 10;
	return -1;
}

/* returns malloc'ed bytes (at least 1 byte allocated), length in *n, NULL on syntax error. "-" or "" = empty */
static uint8_t *unhex(const char *s, size_t *n)
{
	size_t l = strlen(s);
	uint8_t *b;

	if (strcmp(s, "-") == 0)
		l = 0;
	if (l % 2)
		return NULL;
	b = calloc(l / 2 + 1, 1);
	for (size_t i = 0; i < l / 2; i++) {
		int x = hexval(s[2 * i]), y = hexval(s[2 * i + 1]);

		if (x < 0 || y < 0) {
			free(b);
			return NULL;
		}
		b[i] = (uint8_t)(x * 16 + y);
	}
	*n = l / 2;
	return b;
}

static void puthex(const uint8_t *b, size_t n)
{
	for (size_t i = 0; i < n; i++)
		printf("%02x", b[i]);
}

static bool num(const char *s, unsigned long max, unsigned long *out)
{
	char *e;
	unsigned long v;

	if (!isdigit((unsigned char)s[0]))
		return false;
	v = strtoul(s, &e, 10);
	if (*e || v > max)
		return false;
	*out = v;
	return true;
}

static const char *rcname(int rc)
{
	switch (rc) {
	case RTR_BGPSEC_NOT_VALID:
		return "NOT_VALID";
	case RTR_BGPSEC_VALID:
		return "VALID";
	case RTR_BGPSEC_SUCCESS:
		return "SUCCESS";
	case RTR_BGPSEC_ERROR:
		return "ERROR";
	case RTR_BGPSEC_LOAD_PUB_KEY_ERROR:
		return "LOAD_PUB_KEY_ERROR";
	case RTR_BGPSEC_LOAD_PRIV_KEY_ERROR:
		return "LOAD_PRIV_KEY_ERROR";
	case RTR_BGPSEC_ROUTER_KEY_NOT_FOUND:
		return "ROUTER_KEY_NOT_FOUND";
	case RTR_BGPSEC_SIGNING_ERROR:
		return "SIGNING_ERROR";
	case RTR_BGPSEC_UNSUPPORTED_ALGORITHM_SUITE:
		return "UNSUPPORTED_ALGORITHM_SUITE";
	case RTR_BGPSEC_UNSUPPORTED_AFI:
		return "UNSUPPORTED_AFI";
	case RTR_BGPSEC_WRONG_SEGMENT_COUNT:
		return "WRONG_SEGMENT_COUNT";
	case RTR_BGPSEC_INVALID_ARGUMENTS:
		return "INVALID_ARGUMENTS";
	}
	return "UNKNOWN_CODE";
}

/* split "a:b:c" in place; returns number of parts (max) */
static int split(char *s, char sep, char **parts, int max)
{
	int n = 0;

	parts[n++] = s;
	for (char *p = s; *p; p++) {
		if (*p == sep && n < max) {
			*p = 0;
			parts[n++] = p + 1;
		}
	}
	return n;
}

/* Parse D starting at tok[*pos]; builds the struct through the library's own constructors.
 * Signature segments are linked by hand (rtr_bgpsec_append_sig_seg refuses sig_len 0, which
 * align_byte_sequence itself accepts), Secure_Path segments through rtr_bgpsec_append_sec_path_seg
 * so that path_len is whatever the public API makes it.
 */
static struct rtr_bgpsec *parse_data(int *pos)
{
	unsigned long alg, afi, safi, nafi, nlen, target, np, ns;
	int p = *pos;
	uint8_t *nb;
	size_t nbl;
	struct rtr_bgpsec_nlri *nlri;
	struct rtr_bgpsec *d;
	struct rtr_signature_seg *last = NULL;

	if (p + 8 > ntok)
		return NULL;
	if (!num(tok[p], 255, &alg) || !num(tok[p + 1], 65535, &afi) || !num(tok[p + 2], 255, &safi) ||
	    !num(tok[p + 3], 65535, &nafi) || !num(tok[p + 4], 255, &nlen))
		return NULL;
	nb = unhex(tok[p + 5], &nbl);
	if (!nb)
		return NULL;
	if (nbl != (nlen + 7) / 8 || !num(tok[p + 6], 0xffffffffUL, &target) || !num(tok[p + 7], 70000, &np)) {
		free(nb);
		return NULL;
	}
	p += 8;
	if (p + (int)np + 1 > ntok) {
		free(nb);
		return NULL;
	}
	/* every part is validated before anything is allocated through rtrlib */
	for (unsigned long i = 0; i < np; i++) {
		char tmp[64], *parts[3];
		unsigned long a, b, c;

		if (strlen(tok[p + i]) >= sizeof(tmp)) {
			free(nb);
			return NULL;
		}
		strcpy(tmp, tok[p + i]);
		if (split(tmp, ':', parts, 3) != 3 || !num(parts[0], 255, &a) || !num(parts[1], 255, &b) ||
		    !num(parts[2], 0xffffffffUL, &c)) {
			free(nb);
			return NULL;
		}
	}
	if (!num(tok[p + np], 70000, &ns) || p + (int)np + 1 + (int)ns > ntok) {
		free(nb);
		return NULL;
	}
	for (unsigned long i = 0; i < ns; i++) {
		char *s = strdup(tok[p + np + 1 + i]), *parts[3];
		unsigned long sl;
		size_t l1, l2;
		uint8_t *b1 = NULL, *b2 = NULL;
		bool ok = split(s, ':', parts, 3) == 3 && num(parts[1], 65535, &sl) && (b1 = unhex(parts[0], &l1)) &&
			  l1 == SKI_SIZE && (b2 = unhex(parts[2], &l2)) && l2 == sl;

		free(b1);
		free(b2);
		free(s);
		if (!ok) {
			free(nb);
			return NULL;
		}
	}

	nlri = rtr_bgpsec_nlri_new(32);
	memset(nlri->nlri, 0, 32);
	memcpy(nlri->nlri, nb, nbl);
	free(nb);
	nlri->nlri_len = (uint8_t)nlen;
	nlri->afi = (uint16_t)nafi;
	nlri->safi = (uint8_t)safi;
	d = rtr_bgpsec_new((uint8_t)alg, (uint8_t)safi, (uint16_t)afi, 0, (uint32_t)target, nlri);
	for (unsigned long i = 0; i < np; i++) {
		char *parts[3];
		unsigned long a, b, c;

		split(tok[p + i], ':', parts, 3);
		num(parts[0], 255, &a);
		num(parts[1], 255, &b);
		num(parts[2], 0xffffffffUL, &c);
		rtr_bgpsec_append_sec_path_seg(d, rtr_bgpsec_new_secure_path_seg((uint8_t)a, (uint8_t)b, (uint32_t)c));
	}
	p += np + 1;
	for (unsigned long i = 0; i < ns; i++) {
		char *parts[3];
		unsigned long sl;
		size_t l1, l2;
		uint8_t *ski, *sig;
		struct rtr_signature_seg *seg;

		split(tok[p + i], ':', parts, 3);
		num(parts[1], 65535, &sl);
		ski = unhex(parts[0], &l1);
		sig = unhex(parts[2], &l2);
		seg = rtr_bgpsec_new_signature_seg(ski, (uint16_t)sl, sig);
		free(ski);
		free(sig);
		if (last)
			last->next = seg;
		else
			d->sigs = seg;
		last = seg;
		d->sigs_len++;
	}
	p += ns;
	*pos = p;
	return d;
}

/* K <k> {asn:ski:spki}*k */
static bool parse_table(int *pos, struct spki_table *t)
{
	unsigned long k;
	int p = *pos;

	if (p + 2 > ntok || strcmp(tok[p], "K") != 0 || !num(tok[p + 1], 100000, &k) || p + 2 + (int)k > ntok)
		return false;
	spki_table_init(t, NULL);
	for (unsigned long i = 0; i < k; i++) {
		char *parts[3];
		unsigned long asn;
		size_t l1 = 0, l2 = 0;
		uint8_t *ski = NULL, *spki = NULL;
		struct spki_record rec;
		bool ok = split(tok[p + 2 + i], ':', parts, 3) == 3 && num(parts[0], 0xffffffffUL, &asn) &&
			  (ski = unhex(parts[1], &l1)) && l1 == SKI_SIZE && (spki = unhex(parts[2], &l2)) &&
			  l2 == SPKI_SIZE;

		if (ok) {
			memset(&rec, 0, sizeof(rec));
			rec.asn = (uint32_t)asn;
			memcpy(rec.ski, ski, SKI_SIZE);
			memcpy(rec.spki, spki, SPKI_SIZE);
			rec.socket = NULL;
			spki_table_add_entry(t, &rec);
		}
		free(ski);
		free(spki);
		if (!ok) {
			spki_table_free(t);
			return false;
		}
	}
	*pos = p + 2 + (int)k;
	return true;
}

static EC_KEY *load_priv(const uint8_t *der, size_t len)
{
	const unsigned char *p = der;

	return d2i_ECPrivateKey(NULL, &p, (long)len);
}

/* v = verifies, n = does not verify, e = key unusable or ECDSA_verify reports an error */
static char verify_raw(const uint8_t *spki, size_t spkilen, const uint8_t *msg, size_t msglen, const uint8_t *sig,
		       size_t siglen)
{
	const unsigned char *p = spki;
	unsigned char md[SHA256_DIGEST_LENGTH];
	EC_KEY *k = d2i_EC_PUBKEY(NULL, &p, (long)spkilen);
	int st;

	if (!k)
		return 'e';
	if (!EC_KEY_check_key(k)) {
		EC_KEY_free(k);
		return 'e';
	}
	SHA256(msg, msglen, md);
	st = ECDSA_verify(0, md, SHA256_DIGEST_LENGTH, sig, (int)siglen, k);
	EC_KEY_free(k);
	return st == 1 ? 'v' : st == 0 ? 'n' : 'e';
}

/* strict DER check of  SEQUENCE { INTEGER r, INTEGER s }  with positive minimal integers, no trailing bytes */
static bool der_int(const uint8_t *b, size_t n, size_t *used)
{
	size_t l;

	if (n < 3 || b[0] != 0x02)
		return false;
	l = b[1];
	if (l == 0 || l > 33 || 2 + l > n)
		return false;
	if (b[2] & 0x80)
		return false; /* negative */
	if (l > 1 && b[2] == 0 && !(b[3] & 0x80))
		return false; /* non-minimal */
	if (l == 1 && b[2] == 0)
		return false; /* r, s must be >= 1 */
	*used = 2 + l;
	return true;
}

static bool der_ok(const uint8_t *b, size_t n)
{
	size_t u1, u2;

	if (n < 8 || n > 72 || b[0] != 0x30 || b[1] != n - 2)
		return false;
	if (!der_int(b + 2, n - 2, &u1))
		return false;
	if (!der_int(b + 2 + u1, n - 2 - u1, &u2))
		return false;
	return 2 + u1 + u2 == n;
}

int main(void)
{
	char *line = NULL;
	size_t cap = 0;

	while (getline(&line, &cap, stdin) > 0) {
		ntok = 0;
		for (char *s = strtok(line, " \t\r\n"); s && ntok < MAXTOK; s = strtok(NULL, " \t\r\n"))
			tok[ntok++] = s;
		if (ntok == 0) {
			puts("bad-op");
			fflush(stdout);
			continue;
		}
		if ((strcmp(tok[0], "size") == 0 || strcmp(tok[0], "align") == 0) && ntok >= 2 &&
		    (strcmp(tok[1], "V") == 0 || strcmp(tok[1], "S") == 0)) {
			int pos = 2;
			enum align_type ty = tok[1][0] == 'V' ? VALIDATION : SIGNING;
			struct rtr_bgpsec *d = parse_data(&pos);

			if (!d || pos != ntok || (ty == VALIDATION && !d->sigs)) {
				/* align_byte_sequence(VALIDATION) dereferences data->sigs: outside its contract */
				if (d)
					rtr_bgpsec_free(d);
				puts("bad-op");
			} else if (tok[0][0] == 's') {
				printf("%zu\n", req_stream_size(d, ty));
				rtr_bgpsec_free(d);
			} else {
				size_t sz = req_stream_size(d, ty);
				struct stream *s = init_stream(sz);
				int rc = align_byte_sequence(d, s, ty);

				printf("%s %zu %u ", rcname(rc), sz, (unsigned int)s->w_head);
				puthex(get_stream_start(s), get_stream_size(s));
				printf("\n");
				free_stream(s);
				rtr_bgpsec_free(d);
			}
		} else if (strcmp(tok[0], "validate") == 0 || strcmp(tok[0], "validate-nonlri") == 0) {
			int pos = 1;
			struct rtr_bgpsec *d = parse_data(&pos);
			struct spki_table t;

			if (d && tok[0][8] == '-') { /* data->nlri == NULL */
				rtr_bgpsec_nlri_free(d->nlri);
				d->nlri = NULL;
			}

			if (!d) {
				puts("bad-op");
			} else if (!parse_table(&pos, &t)) {
				rtr_bgpsec_free(d);
				puts("bad-op");
			} else {
				/* anything after the table (the model's oracle part "O ...") is ignored here */
				int rc = rtr_bgpsec_validate_as_path(d, &t);

				printf("%s\n", rcname(rc));
				spki_table_free(&t);
				rtr_bgpsec_free(d);
			}
		} else if (strcmp(tok[0], "gensig") == 0 || strcmp(tok[0], "gensig-nonlri") == 0) {
			int pos = 1;
			struct rtr_bgpsec *d = parse_data(&pos);

			if (d && tok[0][6] == '-') { /* data->nlri == NULL */
				rtr_bgpsec_nlri_free(d->nlri);
				d->nlri = NULL;
			}
			size_t kl = 0;
			uint8_t *key = (d && pos < ntok) ? unhex(tok[pos], &kl) : NULL;

			if (!d || !key) {
				if (d)
					rtr_bgpsec_free(d);
				free(key);
				puts("bad-op");
			} else {
				/* load_private_key reads up to PRIVATE_KEY_LENGTH bytes: give it a full buffer */
				uint8_t kb[PRIVATE_KEY_LENGTH + 8];
				struct rtr_signature_seg *ns = NULL;
				int rc;

				memset(kb, 0, sizeof(kb));
				memcpy(kb, key, kl < PRIVATE_KEY_LENGTH ? kl : PRIVATE_KEY_LENGTH);
				rc = rtr_bgpsec_generate_signature(d, kb, &ns);
				printf("%s ", rcname(rc));
				if (ns && rc == RTR_BGPSEC_SUCCESS) {
					printf("%u ", ns->sig_len);
					puthex(ns->signature, ns->sig_len);
					printf(" %s", der_ok(ns->signature, ns->sig_len) ? "der-ok" : "der-bad");
				} else {
					printf("- - -");
				}
				printf("\n");
				if (ns && rc != RTR_BGPSEC_SIGNING_ERROR)
					rtr_bgpsec_free_signatures(ns);
				free(key);
				rtr_bgpsec_free(d);
			}
		} else if (strcmp(tok[0], "keygen") == 0 && ntok == 1) {
			EC_KEY *k = EC_KEY_new_by_curve_name(NID_X9_62_prime256v1);
			unsigned char *priv = NULL, *pub = NULL;
			unsigned char pt[65], ski[SHA_DIGEST_LENGTH];
			int pl, ul;

			EC_KEY_set_asn1_flag(k, OPENSSL_EC_NAMED_CURVE);
			EC_KEY_generate_key(k);
			pl = i2d_ECPrivateKey(k, &priv);
			ul = i2d_EC_PUBKEY(k, &pub);
			EC_POINT_point2oct(EC_KEY_get0_group(k), EC_KEY_get0_public_key(k), POINT_CONVERSION_UNCOMPRESSED, pt,
					   sizeof(pt), NULL);
			SHA1(pt, sizeof(pt), ski); /* RFC 6487 4.8.2: SHA-1 of the subjectPublicKey bit string */
			printf("key ");
			puthex(priv, (size_t)pl);
			printf(" ");
			puthex(pub, (size_t)ul);
			printf(" ");
			puthex(ski, sizeof(ski));
			printf("\n");
			OPENSSL_free(priv);
			OPENSSL_free(pub);
			EC_KEY_free(k);
		} else if (strcmp(tok[0], "sign") == 0 && ntok == 3) {
			size_t kl, ml;
			uint8_t *key = unhex(tok[1], &kl), *msg = unhex(tok[2], &ml);
			EC_KEY *k = key && msg ? load_priv(key, kl) : NULL;

			if (!k) {
				puts("bad-op");
			} else {
				unsigned char md[SHA256_DIGEST_LENGTH], sig[128];
				unsigned int sl = 0;

				SHA256(msg, ml, md);
				if (ECDSA_sign(0, md, SHA256_DIGEST_LENGTH, sig, &sl, k) != 1) {
					puts("sign-failed");
				} else {
					printf("sig ");
					puthex(sig, sl);
					printf("\n");
				}
				EC_KEY_free(k);
			}
			free(key);
			free(msg);
		} else if (strcmp(tok[0], "verify") == 0 && ntok == 4) {
			size_t kl, ml, sl;
			uint8_t *spki = unhex(tok[1], &kl), *msg = unhex(tok[2], &ml), *sig = unhex(tok[3], &sl);

			if (!spki || !msg || !sig)
				puts("bad-op");
			else
				printf("%c\n", verify_raw(spki, kl, msg, ml, sig, sl));
			free(spki);
			free(msg);
			free(sig);
		} else if (strcmp(tok[0], "dercheck") == 0 && ntok == 2) {
			size_t sl;
			uint8_t *sig = unhex(tok[1], &sl);

			if (!sig)
				puts("bad-op");
			else
				puts(der_ok(sig, sl) ? "der-ok" : "der-bad");
			free(sig);
		} else {
			puts("bad-op");
		}
		fflush(stdout);
	}
	free(line);
	return 0;
}
