/*
 * Implementation-side executor of the BGPsec line protocol (C11, C12).
 *
 * The real functions of /repo are executed in-process:
 *   size / align      req_stream_size + align_byte_sequence (non-static) on a struct rtr_bgpsec built
 *                     from the request line; the private `struct stream` is visible because this file
 *                     #includes rtrlib/bgpsec/bgpsec_utils.c (the way the repo's unit tests do)
 *   validate          rtr_bgpsec_validate_as_path against a real spki_table filled from the line
 *   gensig            rtr_bgpsec_generate_signature: gensig D <keyhex> [V <spkihex> <msghex>]
 *                     reply "<code> <sig_len> <sighex> der-ok|der-bad [v|n|e]" (the last letter: the generated
 *                     signature verified with plain OpenSSL under <spki> over SHA-256(<msg>)) or "<code> - - -"
 *   validate-nonlri / gensig-nonlri   the same with data->nlri == NULL
 * Independent of rtrlib (plain OpenSSL, never touching rtrlib's layout code):
 *   keygen            fresh P-256 key: private key DER (121 B), SubjectPublicKeyInfo DER (91 B), SKI
 *   sign              ECDSA over SHA-256 of the message bytes GIVEN ON THE LINE (computed by the Lean spec)
 *   verify            ECDSA_verify over SHA-256 of the message bytes given on the line: v / n / e
 *   dercheck          strict DER well-formedness of an ECDSA-Sig-Value
 * The key table changing DURING a validation (the table is shared with the RTR threads, every lookup takes its lock
 * separately):
 *   validate-sched D K E <ne> {<L|A><idx> <nops> {+|-}asn:ski:spki…}*ne [AT … O …]
 *                     event e = the listed spki_table_add_entry / spki_table_remove_entry calls, performed
 *                     L<idx>: immediately before the idx-th acquisition (0-based) of the table's lock by the
 *                             validation call (= between lookup idx-1 and lookup idx), or
 *                     A<idx>: inside the idx-th lrtr_malloc of the call (allocator hook, lrtr_set_alloc_functions)
 *                             unless the table's lock is held at that moment (then at the next allocation).
 *                     Events fire in order.  Reply: "<code> <j_1> … <j_ne>", j_e = number of table lookups of the
 *                     call that had been made when event e happened ("-": it never happened).  rtrlib's calls of
 *                     pthread_rwlock_{rdlock,wrlock,unlock} reach the wrappers bgh_* below through -D on the
 *                     compiler command line (tools/bgpcheck.py), nothing in the library is changed.
 * Several threads (static state inside the library, C12):
 *   mt-begin          start recording: every following validate / gensig line is executed as usual AND remembered
 *                     together with its reply; a gensig line may carry " V <spkihex> <msghex>" (public key and the
 *                     RFC 8205 octets computed by the Lean spec) for the independent verification of what the
 *                     threads generate
 *   mt-defer          like mt-begin, but the calls are only remembered, not executed (the first execution happens
 *                     inside the threads); each call line is preceded by a line "mt-expect <reply>" giving the
 *                     reply it must produce
 *   mt-run <N> <R>    N threads execute the remembered calls R times each, concurrently; every reply must equal
 *                     the single-threaded one (gensig: same code, and every generated signature must be strict DER
 *                     and verify with plain OpenSSL under the given key over the given octets).
 *                     Reply "mt ok" or "mt FAIL <n> first: thread <t> round <r> call <i>: expected … got …"
 *
 * Path description D (all numbers decimal unless "hex"):
 *   <alg> <afi> <safi> <nlri.afi> <nlri_len> <nlrihex|-> <target_as> <np> {pcount:flags:asn}*np <ns> {ski40hex:sig_len:sighex}*ns
 * The lists are in "AS path order" (most recent first), as rtrlib expects them.
 * Key table K:  K <k> {asn:ski40hex:spki182hex}*k     (insertion order)
 */
#define _GNU_SOURCE
#include "rtrlib/bgpsec/bgpsec_private.h"
#include "rtrlib/bgpsec/bgpsec_utils.c"
#include "rtrlib/spki/hashtable/ht-spkitable_private.h"

#include "rtrlib/lib/alloc_utils_private.h"

#include <ctype.h>
#include <pthread.h>
#include <openssl/bn.h>
#include <openssl/ec.h>
#include <openssl/ecdsa.h>
#include <openssl/evp.h>
#include <openssl/obj_mac.h>
#include <openssl/sha.h>
#include <stdbool.h>
#include <stdio.h>
#include <stdlib.h>
#include <string.h>

#define MAXTOK 4096
static __thread char *tok[MAXTOK];
static __thread int ntok;

/* ---- the real lock functions behind the wrappers (the -D renaming applies to this file as well) ---- */
#undef pthread_rwlock_rdlock
#undef pthread_rwlock_wrlock
#undef pthread_rwlock_unlock
extern int pthread_rwlock_rdlock(pthread_rwlock_t *l);
extern int pthread_rwlock_wrlock(pthread_rwlock_t *l);
extern int pthread_rwlock_unlock(pthread_rwlock_t *l);

/* ---- schedule of table changes during one validation call (single-threaded use only) ---- */
#define MAXEV 8
#define MAXOPS 16
struct sched_event {
	char trig; /* 'L' or 'A' */
	unsigned long idx;
	int nops;
	bool add[MAXOPS];
	struct spki_record rec[MAXOPS];
	long fired_at; /* -1: not yet */
};
static struct {
	bool armed;
	bool in_event;
	struct spki_table *table;
	int held; /* table lock held by the calling thread (nesting count) */
	unsigned long lookups; /* acquisitions of the table's lock by the call so far */
	unsigned long allocs; /* lrtr_malloc calls of the call so far */
	int ne, next;
	struct sched_event ev[MAXEV];
} sched;

static void sched_fire(char where)
{
	if (!sched.armed || sched.in_event || sched.held)
		return;
	while (sched.next < sched.ne) {
		struct sched_event *e = &sched.ev[sched.next];

		if (e->trig != where)
			return;
		if (where == 'L' ? sched.lookups < e->idx : sched.allocs < e->idx)
			return;
		sched.in_event = true;
		for (int i = 0; i < e->nops; i++) {
			if (e->add[i])
				spki_table_add_entry(sched.table, &e->rec[i]);
			else
				spki_table_remove_entry(sched.table, &e->rec[i]);
		}
		sched.in_event = false;
		e->fired_at = (long)sched.lookups;
		sched.next++;
	}
}

int bgh_rdlock(pthread_rwlock_t *l)
{
	int rc;
	bool mine = sched.armed && !sched.in_event && l == &sched.table->lock;

	if (mine)
		sched_fire('L');
	rc = pthread_rwlock_rdlock(l);
	if (mine) {
		sched.held++;
		sched.lookups++;
	}
	return rc;
}

int bgh_wrlock(pthread_rwlock_t *l)
{
	int rc = pthread_rwlock_wrlock(l);

	if (sched.armed && !sched.in_event && l == &sched.table->lock)
		sched.held++;
	return rc;
}

int bgh_unlock(pthread_rwlock_t *l)
{
	if (sched.armed && !sched.in_event && l == &sched.table->lock && sched.held > 0)
		sched.held--;
	return pthread_rwlock_unlock(l);
}

static void *hook_malloc(size_t size)
{
	if (sched.armed && !sched.in_event) {
		sched_fire('A');
		sched.allocs++;
	}
	return malloc(size);
}

static int hexval(int c)
{
	if (c >= '0' && c <= '9')
		return c - '0';
	if (c >= 'a' && c <= 'f')
		return c - 'a' + 10;
	if (c >= 'A' && c <= 'F')
		return c - 'A' + 10;
	return -1;
}

/* returns malloc'ed bytes (at least 1 byte allocated), length in *n, NULL on syntax error. "-" or "" = empty */
static uint8_t *unhex(const char *s, size_t *n)
{
	size_t l = strlen(s);
	uint8_t *b;

	if (strcmp(s, "-") == 0)
		l = 0;
	if (l % 2)
		return NULL;
	b = calloc(l / 2 + 1, 1);
	for (size_t i = 0; i < l / 2; i++) {
		int x = hexval(s[2 * i]), y = hexval(s[2 * i + 1]);

		if (x < 0 || y < 0) {
			free(b);
			return NULL;
		}
		b[i] = (uint8_t)(x * 16 + y);
	}
	*n = l / 2;
	return b;
}

static void puthex(FILE *o, const uint8_t *b, size_t n)
{
	for (size_t i = 0; i < n; i++)
		fprintf(o, "%02x", b[i]);
}

static bool num(const char *s, unsigned long max, unsigned long *out)
{
	char *e;
	unsigned long v;

	if (!isdigit((unsigned char)s[0]))
		return false;
	v = strtoul(s, &e, 10);
	if (*e || v > max)
		return false;
	*out = v;
	return true;
}

static const char *rcname(int rc)
{
	switch (rc) {
	case RTR_BGPSEC_NOT_VALID:
		return "NOT_VALID";
	case RTR_BGPSEC_VALID:
		return "VALID";
	case RTR_BGPSEC_SUCCESS:
		return "SUCCESS";
	case RTR_BGPSEC_ERROR:
		return "ERROR";
	case RTR_BGPSEC_LOAD_PUB_KEY_ERROR:
		return "LOAD_PUB_KEY_ERROR";
	case RTR_BGPSEC_LOAD_PRIV_KEY_ERROR:
		return "LOAD_PRIV_KEY_ERROR";
	case RTR_BGPSEC_ROUTER_KEY_NOT_FOUND:
		return "ROUTER_KEY_NOT_FOUND";
	case RTR_BGPSEC_SIGNING_ERROR:
		return "SIGNING_ERROR";
	case RTR_BGPSEC_UNSUPPORTED_ALGORITHM_SUITE:
		return "UNSUPPORTED_ALGORITHM_SUITE";
	case RTR_BGPSEC_UNSUPPORTED_AFI:
		return "UNSUPPORTED_AFI";
	case RTR_BGPSEC_WRONG_SEGMENT_COUNT:
		return "WRONG_SEGMENT_COUNT";
	case RTR_BGPSEC_INVALID_ARGUMENTS:
		return "INVALID_ARGUMENTS";
	}
	return "UNKNOWN_CODE";
}

/* split "a:b:c" in place; returns number of parts (max) */
static int split(char *s, char sep, char **parts, int max)
{
	int n = 0;

	parts[n++] = s;
	for (char *p = s; *p; p++) {
		if (*p == sep && n < max) {
			*p = 0;
			parts[n++] = p + 1;
		}
	}
	return n;
}

/* Parse D starting at tok[*pos]; builds the struct through the library's own constructors.
 * Signature segments are linked by hand (rtr_bgpsec_append_sig_seg refuses sig_len 0, which
 * align_byte_sequence itself accepts), Secure_Path segments through rtr_bgpsec_append_sec_path_seg
 * so that path_len is whatever the public API makes it.
 */
static struct rtr_bgpsec *parse_data(int *pos)
{
	unsigned long alg, afi, safi, nafi, nlen, target, np, ns;
	int p = *pos;
	uint8_t *nb;
	size_t nbl;
	struct rtr_bgpsec_nlri *nlri;
	struct rtr_bgpsec *d;
	struct rtr_signature_seg *last = NULL;

	if (p + 8 > ntok)
		return NULL;
	if (!num(tok[p], 255, &alg) || !num(tok[p + 1], 65535, &afi) || !num(tok[p + 2], 255, &safi) ||
	    !num(tok[p + 3], 65535, &nafi) || !num(tok[p + 4], 255, &nlen))
		return NULL;
	nb = unhex(tok[p + 5], &nbl);
	if (!nb)
		return NULL;
	if (nbl != (nlen + 7) / 8 || !num(tok[p + 6], 0xffffffffUL, &target) || !num(tok[p + 7], 70000, &np)) {
		free(nb);
		return NULL;
	}
	p += 8;
	if (p + (int)np + 1 > ntok) {
		free(nb);
		return NULL;
	}
	/* every part is validated before anything is allocated through rtrlib */
	for (unsigned long i = 0; i < np; i++) {
		char tmp[64], *parts[3];
		unsigned long a, b, c;

		if (strlen(tok[p + i]) >= sizeof(tmp)) {
			free(nb);
			return NULL;
		}
		strcpy(tmp, tok[p + i]);
		if (split(tmp, ':', parts, 3) != 3 || !num(parts[0], 255, &a) || !num(parts[1], 255, &b) ||
		    !num(parts[2], 0xffffffffUL, &c)) {
			free(nb);
			return NULL;
		}
	}
	if (!num(tok[p + np], 70000, &ns) || p + (int)np + 1 + (int)ns > ntok) {
		free(nb);
		return NULL;
	}
	for (unsigned long i = 0; i < ns; i++) {
		char *s = strdup(tok[p + np + 1 + i]), *parts[3];
		unsigned long sl;
		size_t l1, l2;
		uint8_t *b1 = NULL, *b2 = NULL;
		bool ok = split(s, ':', parts, 3) == 3 && num(parts[1], 65535, &sl) && (b1 = unhex(parts[0], &l1)) &&
			  l1 == SKI_SIZE && (b2 = unhex(parts[2], &l2)) && l2 == sl;

		free(b1);
		free(b2);
		free(s);
		if (!ok) {
			free(nb);
			return NULL;
		}
	}

	nlri = rtr_bgpsec_nlri_new(32);
	memset(nlri->nlri, 0, 32);
	memcpy(nlri->nlri, nb, nbl);
	free(nb);
	nlri->nlri_len = (uint8_t)nlen;
	nlri->afi = (uint16_t)nafi;
	nlri->safi = (uint8_t)safi;
	d = rtr_bgpsec_new((uint8_t)alg, (uint8_t)safi, (uint16_t)afi, 0, (uint32_t)target, nlri);
	for (unsigned long i = 0; i < np; i++) {
		char *parts[3];
		unsigned long a, b, c;

		split(tok[p + i], ':', parts, 3);
		num(parts[0], 255, &a);
		num(parts[1], 255, &b);
		num(parts[2], 0xffffffffUL, &c);
		rtr_bgpsec_append_sec_path_seg(d, rtr_bgpsec_new_secure_path_seg((uint8_t)a, (uint8_t)b, (uint32_t)c));
	}
	p += np + 1;
	for (unsigned long i = 0; i < ns; i++) {
		char *parts[3];
		unsigned long sl;
		size_t l1, l2;
		uint8_t *ski, *sig;
		struct rtr_signature_seg *seg;

		split(tok[p + i], ':', parts, 3);
		num(parts[1], 65535, &sl);
		ski = unhex(parts[0], &l1);
		sig = unhex(parts[2], &l2);
		seg = rtr_bgpsec_new_signature_seg(ski, (uint16_t)sl, sig);
		free(ski);
		free(sig);
		if (last)
			last->next = seg;
		else
			d->sigs = seg;
		last = seg;
		d->sigs_len++;
	}
	p += ns;
	*pos = p;
	return d;
}

/* K <k> {asn:ski:spki}*k */
static bool parse_table(int *pos, struct spki_table *t)
{
	unsigned long k;
	int p = *pos;

	if (p + 2 > ntok || strcmp(tok[p], "K") != 0 || !num(tok[p + 1], 100000, &k) || p + 2 + (int)k > ntok)
		return false;
	spki_table_init(t, NULL);
	for (unsigned long i = 0; i < k; i++) {
		char *parts[3];
		unsigned long asn;
		size_t l1 = 0, l2 = 0;
		uint8_t *ski = NULL, *spki = NULL;
		struct spki_record rec;
		bool ok = split(tok[p + 2 + i], ':', parts, 3) == 3 && num(parts[0], 0xffffffffUL, &asn) &&
			  (ski = unhex(parts[1], &l1)) && l1 == SKI_SIZE && (spki = unhex(parts[2], &l2)) &&
			  l2 == SPKI_SIZE;

		if (ok) {
			memset(&rec, 0, sizeof(rec));
			rec.asn = (uint32_t)asn;
			memcpy(rec.ski, ski, SKI_SIZE);
			memcpy(rec.spki, spki, SPKI_SIZE);
			rec.socket = NULL;
			spki_table_add_entry(t, &rec);
		}
		free(ski);
		free(spki);
		if (!ok) {
			spki_table_free(t);
			return false;
		}
	}
	*pos = p + 2 + (int)k;
	return true;
}

/* "asn:ski:spki" -> record; the token is modified */
static bool parse_record(char *t, struct spki_record *rec)
{
	char *parts[3];
	unsigned long asn;
	size_t l1 = 0, l2 = 0;
	uint8_t *ski = NULL, *spki = NULL;
	bool ok = split(t, ':', parts, 3) == 3 && num(parts[0], 0xffffffffUL, &asn) && (ski = unhex(parts[1], &l1)) &&
		  l1 == SKI_SIZE && (spki = unhex(parts[2], &l2)) && l2 == SPKI_SIZE;

	if (ok) {
		memset(rec, 0, sizeof(*rec));
		rec->asn = (uint32_t)asn;
		memcpy(rec->ski, ski, SKI_SIZE);
		memcpy(rec->spki, spki, SPKI_SIZE);
		rec->socket = NULL;
	}
	free(ski);
	free(spki);
	return ok;
}

/* E <ne> {<L|A><idx> <nops> {+|-}asn:ski:spki…}*ne  -> sched.ev */
static bool parse_events(int *pos)
{
	unsigned long ne;
	int p = *pos;

	if (p + 2 > ntok || strcmp(tok[p], "E") != 0 || !num(tok[p + 1], MAXEV, &ne))
		return false;
	p += 2;
	sched.ne = 0;
	sched.next = 0;
	for (unsigned long e = 0; e < ne; e++) {
		struct sched_event *ev = &sched.ev[e];
		unsigned long idx, nops;

		if (p + 2 > ntok || (tok[p][0] != 'L' && tok[p][0] != 'A') || !num(tok[p] + 1, 99999, &idx) ||
		    !num(tok[p + 1], MAXOPS, &nops) || p + 2 + (int)nops > ntok)
			return false;
		ev->trig = tok[p][0];
		ev->idx = idx;
		ev->nops = (int)nops;
		ev->fired_at = -1;
		p += 2;
		for (unsigned long i = 0; i < nops; i++, p++) {
			if (tok[p][0] != '+' && tok[p][0] != '-')
				return false;
			ev->add[i] = tok[p][0] == '+';
			if (!parse_record(tok[p] + 1, &ev->rec[i]))
				return false;
		}
	}
	sched.ne = (int)ne;
	*pos = p;
	return true;
}

static EC_KEY *load_priv(const uint8_t *der, size_t len)
{
	const unsigned char *p = der;

	return d2i_ECPrivateKey(NULL, &p, (long)len);
}

/* v = verifies, n = does not verify, e = key unusable or ECDSA_verify reports an error */
static char verify_raw(const uint8_t *spki, size_t spkilen, const uint8_t *msg, size_t msglen, const uint8_t *sig,
		       size_t siglen)
{
	const unsigned char *p = spki;
	unsigned char md[SHA256_DIGEST_LENGTH];
	EC_KEY *k = d2i_EC_PUBKEY(NULL, &p, (long)spkilen);
	int st;

	if (!k)
		return 'e';
	if (!EC_KEY_check_key(k)) {
		EC_KEY_free(k);
		return 'e';
	}
	SHA256(msg, msglen, md);
	st = ECDSA_verify(0, md, SHA256_DIGEST_LENGTH, sig, (int)siglen, k);
	EC_KEY_free(k);
	return st == 1 ? 'v' : st == 0 ? 'n' : 'e';
}

/* strict DER check of  SEQUENCE { INTEGER r, INTEGER s }  with positive minimal integers, no trailing bytes */
static bool der_int(const uint8_t *b, size_t n, size_t *used)
{
	size_t l;

	if (n < 3 || b[0] != 0x02)
		return false;
	l = b[1];
	if (l == 0 || l > 33 || 2 + l > n)
		return false;
	if (b[2] & 0x80)
		return false; /* negative */
	if (l > 1 && b[2] == 0 && !(b[3] & 0x80))
		return false; /* non-minimal */
	if (l == 1 && b[2] == 0)
		return false; /* r, s must be >= 1 */
	*used = 2 + l;
	return true;
}

static bool der_ok(const uint8_t *b, size_t n)
{
	size_t u1, u2;

	if (n < 8 || n > 72 || b[0] != 0x30 || b[1] != n - 2)
		return false;
	if (!der_int(b + 2, n - 2, &u1))
		return false;
	if (!der_int(b + 2 + u1, n - 2 - u1, &u2))
		return false;
	return 2 + u1 + u2 == n;
}

/* executes one request line (destroyed by tokenising), writes exactly one reply line to o */
static void exec_line(char *line, FILE *o)
{
	char *save = NULL;

	{
		ntok = 0;
		for (char *s = strtok_r(line, " \t\r\n", &save); s && ntok < MAXTOK; s = strtok_r(NULL, " \t\r\n", &save))
			tok[ntok++] = s;
		if (ntok == 0) {
			fputs("bad-op" "\n", o);
			return;
		}
		if ((strcmp(tok[0], "size") == 0 || strcmp(tok[0], "align") == 0) && ntok >= 2 &&
		    (strcmp(tok[1], "V") == 0 || strcmp(tok[1], "S") == 0)) {
			int pos = 2;
			enum align_type ty = tok[1][0] == 'V' ? VALIDATION : SIGNING;
			struct rtr_bgpsec *d = parse_data(&pos);

			if (!d || pos != ntok || (ty == VALIDATION && !d->sigs)) {
				/* align_byte_sequence(VALIDATION) dereferences data->sigs: outside its contract */
				if (d)
					rtr_bgpsec_free(d);
				fputs("bad-op" "\n", o);
			} else if (tok[0][0] == 's') {
				fprintf(o, "%zu\n", req_stream_size(d, ty));
				rtr_bgpsec_free(d);
			} else {
				size_t sz = req_stream_size(d, ty);
				struct stream *s = init_stream(sz);
				int rc = align_byte_sequence(d, s, ty);

				fprintf(o, "%s %zu %u ", rcname(rc), sz, (unsigned int)s->w_head);
				puthex(o, get_stream_start(s), get_stream_size(s));
				fprintf(o, "\n");
				free_stream(s);
				rtr_bgpsec_free(d);
			}
		} else if (strcmp(tok[0], "validate") == 0 || strcmp(tok[0], "validate-nonlri") == 0) {
			int pos = 1;
			struct rtr_bgpsec *d = parse_data(&pos);
			struct spki_table t;

			if (d && tok[0][8] == '-') { /* data->nlri == NULL */
				rtr_bgpsec_nlri_free(d->nlri);
				d->nlri = NULL;
			}

			if (!d) {
				fputs("bad-op" "\n", o);
			} else if (!parse_table(&pos, &t)) {
				rtr_bgpsec_free(d);
				fputs("bad-op" "\n", o);
			} else {
				/* anything after the table (the model's oracle part "O ...") is ignored here */
				int rc = rtr_bgpsec_validate_as_path(d, &t);

				fprintf(o, "%s\n", rcname(rc));
				spki_table_free(&t);
				rtr_bgpsec_free(d);
			}
		} else if (strcmp(tok[0], "validate-sched") == 0) {
			int pos = 1;
			struct rtr_bgpsec *d = parse_data(&pos);
			struct spki_table t;

			if (!d) {
				fputs("bad-op\n", o);
			} else if (!parse_table(&pos, &t)) {
				rtr_bgpsec_free(d);
				fputs("bad-op\n", o);
			} else if (!parse_events(&pos)) {
				spki_table_free(&t);
				rtr_bgpsec_free(d);
				fputs("bad-op\n", o);
			} else {
				int rc;

				sched.table = &t;
				sched.held = 0;
				sched.lookups = 0;
				sched.allocs = 0;
				sched.in_event = false;
				sched.armed = true;
				rc = rtr_bgpsec_validate_as_path(d, &t);
				sched.armed = false;
				fprintf(o, "%s", rcname(rc));
				for (int e = 0; e < sched.ne; e++) {
					if (sched.ev[e].fired_at < 0)
						fprintf(o, " -");
					else
						fprintf(o, " %ld", sched.ev[e].fired_at);
				}
				fprintf(o, "\n");
				spki_table_free(&t);
				rtr_bgpsec_free(d);
			}
		} else if (strcmp(tok[0], "gensig") == 0 || strcmp(tok[0], "gensig-nonlri") == 0) {
			int pos = 1;
			struct rtr_bgpsec *d = parse_data(&pos);

			if (d && tok[0][6] == '-') { /* data->nlri == NULL */
				rtr_bgpsec_nlri_free(d->nlri);
				d->nlri = NULL;
			}
			size_t kl = 0;
			uint8_t *key = (d && pos < ntok) ? unhex(tok[pos], &kl) : NULL;

			if (!d || !key) {
				if (d)
					rtr_bgpsec_free(d);
				free(key);
				fputs("bad-op" "\n", o);
			} else {
				/* load_private_key reads up to PRIVATE_KEY_LENGTH bytes: give it a full buffer */
				uint8_t kb[PRIVATE_KEY_LENGTH + 8];
				struct rtr_signature_seg *ns = NULL;
				int rc;

				memset(kb, 0, sizeof(kb));
				memcpy(kb, key, kl < PRIVATE_KEY_LENGTH ? kl : PRIVATE_KEY_LENGTH);
				rc = rtr_bgpsec_generate_signature(d, kb, &ns);
				fprintf(o, "%s ", rcname(rc));
				if (ns && rc == RTR_BGPSEC_SUCCESS) {
					fprintf(o, "%u ", ns->sig_len);
					puthex(o, ns->signature, ns->sig_len);
					fprintf(o, " %s", der_ok(ns->signature, ns->sig_len) ? "der-ok" : "der-bad");
					/* " V <spki> <msg>" after the key: verify what was generated with plain OpenSSL
					 * under THAT public key over SHA-256 of THOSE octets (computed by the Lean spec) */
					if (pos + 3 < ntok && strcmp(tok[pos + 1], "V") == 0) {
						size_t pl = 0, ml = 0;
						uint8_t *pk = unhex(tok[pos + 2], &pl), *msg = unhex(tok[pos + 3], &ml);

						if (pk && msg)
							fprintf(o, " %c",
								verify_raw(pk, pl, msg, ml, ns->signature, ns->sig_len));
						else
							fprintf(o, " ?");
						free(pk);
						free(msg);
					}
				} else {
					fprintf(o, "- - -");
				}
				fprintf(o, "\n");
				if (ns && rc != RTR_BGPSEC_SIGNING_ERROR)
					rtr_bgpsec_free_signatures(ns);
				free(key);
				rtr_bgpsec_free(d);
			}
		} else if (strcmp(tok[0], "keygen") == 0 && ntok == 1) {
			EC_KEY *k = EC_KEY_new_by_curve_name(NID_X9_62_prime256v1);
			unsigned char *priv = NULL, *pub = NULL;
			unsigned char pt[65], ski[SHA_DIGEST_LENGTH];
			int pl, ul;

			EC_KEY_set_asn1_flag(k, OPENSSL_EC_NAMED_CURVE);
			EC_KEY_generate_key(k);
			pl = i2d_ECPrivateKey(k, &priv);
			ul = i2d_EC_PUBKEY(k, &pub);
			EC_POINT_point2oct(EC_KEY_get0_group(k), EC_KEY_get0_public_key(k), POINT_CONVERSION_UNCOMPRESSED, pt,
					   sizeof(pt), NULL);
			SHA1(pt, sizeof(pt), ski); /* RFC 6487 4.8.2: SHA-1 of the subjectPublicKey bit string */
			fprintf(o, "key ");
			puthex(o, priv, (size_t)pl);
			fprintf(o, " ");
			puthex(o, pub, (size_t)ul);
			fprintf(o, " ");
			puthex(o, ski, sizeof(ski));
			fprintf(o, "\n");
			OPENSSL_free(priv);
			OPENSSL_free(pub);
			EC_KEY_free(k);
		} else if (strcmp(tok[0], "keyforms") == 0 && ntok == 2) {
			/* other valid RFC 5915 encodings of the same private key: without the optional public key, and with the
			 * public point in compressed form */
			size_t kl;
			uint8_t *key = unhex(tok[1], &kl);
			EC_KEY *k = key ? load_priv(key, kl) : NULL;

			if (!k) {
				fputs("bad-op" "\n", o);
			} else {
				unsigned char *a = NULL, *b = NULL;
				int al, bl;

				EC_KEY_set_enc_flags(k, EC_KEY_get_enc_flags(k) | EC_PKEY_NO_PUBKEY);
				al = i2d_ECPrivateKey(k, &a);
				EC_KEY_set_enc_flags(k, EC_KEY_get_enc_flags(k) & ~EC_PKEY_NO_PUBKEY);
				EC_KEY_set_conv_form(k, POINT_CONVERSION_COMPRESSED);
				bl = i2d_ECPrivateKey(k, &b);
				fprintf(o, "forms ");
				puthex(o, a, al > 0 ? (size_t)al : 0);
				fprintf(o, " ");
				puthex(o, b, bl > 0 ? (size_t)bl : 0);
				fprintf(o, "\n");
				OPENSSL_free(a);
				OPENSSL_free(b);
				EC_KEY_free(k);
			}
			free(key);
		} else if (strcmp(tok[0], "sign") == 0 && ntok == 3) {
			size_t kl, ml;
			uint8_t *key = unhex(tok[1], &kl), *msg = unhex(tok[2], &ml);
			EC_KEY *k = key && msg ? load_priv(key, kl) : NULL;

			if (!k) {
				fputs("bad-op" "\n", o);
			} else {
				unsigned char md[SHA256_DIGEST_LENGTH], sig[128];
				unsigned int sl = 0;

				SHA256(msg, ml, md);
				if (ECDSA_sign(0, md, SHA256_DIGEST_LENGTH, sig, &sl, k) != 1) {
					fputs("sign-failed" "\n", o);
				} else {
					fprintf(o, "sig ");
					puthex(o, sig, sl);
					fprintf(o, "\n");
				}
				EC_KEY_free(k);
			}
			free(key);
			free(msg);
		} else if (strcmp(tok[0], "verify") == 0 && ntok == 4) {
			size_t kl, ml, sl;
			uint8_t *spki = unhex(tok[1], &kl), *msg = unhex(tok[2], &ml), *sig = unhex(tok[3], &sl);

			if (!spki || !msg || !sig)
				fputs("bad-op" "\n", o);
			else
				fprintf(o, "%c\n", verify_raw(spki, kl, msg, ml, sig, sl));
			free(spki);
			free(msg);
			free(sig);
		} else if (strcmp(tok[0], "dercheck") == 0 && ntok == 2) {
			size_t sl;
			uint8_t *sig = unhex(tok[1], &sl);

			if (!sig)
				fputs("bad-op" "\n", o);
			else
				fputs(der_ok(sig, sl) ? "der-ok\n" : "der-bad\n", o);
			free(sig);
		} else {
			fputs("bad-op" "\n", o);
		}
	}
}


/* ---------------- several threads execute the same calls ---------------- */
struct mt_call {
	char *line; /* request line as received */
	char *reply; /* single-threaded reply (one line, no newline) */
};
static struct mt_call *mt_calls;
static size_t mt_n, mt_cap;
static bool mt_recording, mt_deferred;
static char *mt_pending;

static struct {
	pthread_mutex_t mu;
	unsigned long fails;
	char first[600];
	int rounds;
	pthread_barrier_t start;
} mt;

static char *run_to_string(const char *line)
{
	char *copy = strdup(line), *buf = NULL;
	size_t len = 0;
	FILE *o = open_memstream(&buf, &len);

	exec_line(copy, o);
	fclose(o);
	free(copy);
	if (len && buf[len - 1] == '\n')
		buf[len - 1] = 0;
	return buf;
}

static void mt_record(const char *line, const char *reply)
{
	struct mt_call *c;

	if (mt_n == mt_cap) {
		mt_cap = mt_cap ? 2 * mt_cap : 64;
		mt_calls = realloc(mt_calls, mt_cap * sizeof(*mt_calls));
	}
	c = &mt_calls[mt_n++];
	memset(c, 0, sizeof(*c));
	c->line = strdup(line);
	c->reply = strdup(reply);
	c->reply[strcspn(c->reply, "\r\n")] = 0;
}

static void mt_fail(int t, int r, size_t i, const char *exp, const char *got, const char *why)
{
	pthread_mutex_lock(&mt.mu);
	if (!mt.fails)
		snprintf(mt.first, sizeof(mt.first), "thread %d round %d call %zu: %s: expected %.160s got %.160s", t, r, i, why,
			 exp, got);
	mt.fails++;
	pthread_mutex_unlock(&mt.mu);
}

static void *mt_thread(void *arg)
{
	int t = (int)(intptr_t)arg;

	pthread_barrier_wait(&mt.start);
	for (int r = 0; r < mt.rounds; r++) {
		for (size_t k = 0; k < mt_n; k++) {
			/* threads walk the list at different phases, so that different calls overlap */
			size_t i = (k + (size_t)t * 7) % mt_n;
			struct mt_call *c = &mt_calls[i];
			char *got = run_to_string(c->line);

			if (strncmp(c->line, "gensig", 6) == 0) {
				/* signatures are randomised: same code, strict DER, verifies (letter appended by exec_line) */
				size_t el = strcspn(c->reply, " "), gl = strcspn(got, " ");

				if (el != gl || strncmp(c->reply, got, el) != 0) {
					mt_fail(t, r, i, c->reply, got, "return code differs from the single-threaded call");
				} else if (strncmp(got, "SUCCESS", 7) == 0) {
					size_t n = strlen(got);

					if (!strstr(got, " der-ok"))
						mt_fail(t, r, i, "a strict DER ECDSA-Sig-Value", got, "generated signature malformed");
					else if (strstr(c->line, " V ") && !(n > 2 && got[n - 1] == 'v' && got[n - 2] == ' '))
						mt_fail(t, r, i, "v", got,
							"generated signature does not verify (plain OpenSSL, SHA-256 of the RFC 8205 octets of the Lean spec, matching public key)");
				}
			} else if (strcmp(got, c->reply) != 0) {
				mt_fail(t, r, i, c->reply, got, "reply differs from the single-threaded call");
			}
			free(got);
		}
	}
	return NULL;
}

static void mt_run(int nthreads, int rounds, FILE *o)
{
	pthread_t th[16];

	mt.fails = 0;
	mt.first[0] = 0;
	mt.rounds = rounds;
	pthread_mutex_init(&mt.mu, NULL);
	pthread_barrier_init(&mt.start, NULL, (unsigned int)nthreads);
	for (int t = 0; t < nthreads; t++)
		pthread_create(&th[t], NULL, mt_thread, (void *)(intptr_t)t);
	for (int t = 0; t < nthreads; t++)
		pthread_join(th[t], NULL);
	pthread_barrier_destroy(&mt.start);
	if (mt.fails)
		fprintf(o, "mt FAIL %lu first: %s\n", mt.fails, mt.first);
	else
		fprintf(o, "mt ok\n");
}

int main(void)
{
	char *line = NULL;
	size_t cap = 0;

	lrtr_set_alloc_functions(hook_malloc, realloc, free);
	while (getline(&line, &cap, stdin) > 0) {
		unsigned long n, r;
		char w0[32] = "", w1[32] = "", w2[32] = "";
		int nw = sscanf(line, "%31s %31s %31s", w0, w1, w2);

		if (nw >= 1 && strcmp(w0, "mt-begin") == 0 && nw == 1) {
			for (size_t i = 0; i < mt_n; i++) {
				free(mt_calls[i].line);
				free(mt_calls[i].reply);
			}
			mt_n = 0;
			mt_recording = true;
			mt_deferred = false;
			puts("mt-begin");
		} else if (nw >= 1 && strcmp(w0, "mt-defer") == 0 && nw == 1) {
			mt_n = 0; /* (a list recorded before is dropped without being freed: once per process) */
			mt_recording = true;
			mt_deferred = true;
			puts("mt-defer");
		} else if (mt_deferred && mt_recording && strncmp(line, "mt-expect ", 10) == 0) {
			free(mt_pending);
			mt_pending = strdup(line + 10);
			puts("ok");
		} else if (mt_deferred && mt_recording && mt_pending &&
			   (strncmp(line, "gensig ", 7) == 0 || strncmp(line, "validate ", 9) == 0)) {
			mt_record(line, mt_pending);
			free(mt_pending);
			mt_pending = NULL;
			puts("recorded");
		} else if (nw == 3 && strcmp(w0, "mt-run") == 0 && num(w1, 16, &n) && n >= 1 && num(w2, 100000, &r)) {
			mt_recording = false;
			if (mt_n == 0)
				puts("bad-op");
			else
				mt_run((int)n, (int)r, stdout);
		} else {
			char *reply = run_to_string(line);

			puts(reply);
			if (mt_recording && (strncmp(line, "gensig ", 7) == 0 || strncmp(line, "validate ", 9) == 0))
				mt_record(line, reply);
			free(reply);
		}
		fflush(stdout);
	}
	free(line);
	return 0;
}
